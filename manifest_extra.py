CHECKS = {
 "C04": ("exploration", "concat machine; per-hole reference model vs API live and after re-open, RAW tiling rule after every operation, all concatenation rules (R12-R15, one record per live entity) at every close, per-row digests of untouched holes, group-wide table view",
         "Seeded search over add / update / rename / remove (workspace or parent) / copy / re-open sequences on 1-2 drillhole groups with 1-5 holes, data names shared between holes, both attribute encodings (format 2.0 and 2.1), GC points at op / io-call / source-line granularity.", "5 C04"),
 "C11": ("fault_enumeration", "lifecycle machine; every abort point of each seeded history plus normal exit, explicit/double close and helper-induced closes; handle count, file validity, completed operations in the file, value-or-closed-error on stale references, re-open liveness",
         "Exhaustive over the crash points (between-operation aborts of the with-block) of each generated history of <= 12 operations; histories themselves are sampled by seed. Process kills and mid-operation I/O failures are out of scope by the property's text.", "5 C11"),
}
