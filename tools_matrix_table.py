"""Markdown table of seeded/*/meta.json for DESIGN.md §12.4."""
import json
from pathlib import Path

rows = []
for d in sorted(Path("/verif/seeded").iterdir()):
    meta = json.loads((d / "meta.json").read_text())
    title = (d / "notes.md").read_text().splitlines()[0].lstrip("# ").strip() if (d / "notes.md").exists() else ""
    title = title.split("--", 1)[-1].split("—", 1)[-1].split(" - ", 1)[-1].strip()
    if meta.get("outside_property_as_read"):
        out = "not flagged — outside the property as the check reads it (see below)"
    elif meta.get("neutralised_by"):
        out = "no longer breaks the property (repair in §12.2); caught on the tree before the repair"
    else:
        own = [r for r in meta.get("runs", []) if r["check"] == meta["property"]]
        others = [r for r in meta.get("runs", []) if r["check"] != meta["property"] and r["caught"]]
        if own and own[-1]["caught"]:
            first = next((l for l in own[-1]["first_lines"] if not l.startswith(("VIOLATION", "KNOWN"))), "")
            tag = first.strip().split(":")[0].split("{")[0].strip()
            out = "caught: `" + tag + "`" if tag and " " not in tag else "caught"
        elif own:
            out = "MISSED by its own quick check"
        else:
            out = "not run"
        if others:
            out += " (also " + ", ".join(r["check"] for r in others) + ")"
    rows.append(f"| {d.name} | {title[:110]} | {out} |")
print("| change | what it does | quick check of its property |\n|---|---|---|")
print("\n".join(rows))
