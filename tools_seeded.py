"""
Seeded-change tooling.

  verify <src-dir> <name>   confirm a sub-agent's change in a scratch worktree of /repo HEAD (applies, demo passes without /
                            fails with, suite passes with) and store it as /verif/seeded/<name>/ {patch.diff, demo.py, notes.md, meta.json}
  run <name> [props...]     apply seeded/<name>/patch.diff to /repo, run the quick checks of the given properties
                            (default: meta.json's property), always revert; record the outcome in meta.json
"""

import json
import os
import shutil
import subprocess
import sys
import time
from pathlib import Path

VERIF = Path("/verif")
REPO = "/repo"
PY = "/venv/bin/python"


def sh(cmd, cwd=None, env=None, timeout=1800):
    return subprocess.run(cmd, cwd=cwd, env=env, shell=isinstance(cmd, str), capture_output=True, text=True, timeout=timeout)


def verify(src: str, name: str) -> int:
    src_dir = Path(src)
    patch = src_dir / "patch.diff"
    wt = Path(f"/tmp/wt-verify-{name}")
    if wt.exists():
        sh(["git", "-C", REPO, "worktree", "remove", "--force", str(wt)])
    sh(["git", "-C", REPO, "worktree", "add", "-q", "--detach", str(wt), "HEAD"])
    env = dict(os.environ, PYTHONPATH=str(wt), PYTHONDONTWRITEBYTECODE="1")
    result = {"name": name, "source": str(src_dir), "repo_head": sh(["git", "-C", REPO, "rev-parse", "--short", "HEAD"]).stdout.strip()}
    try:
        chk = sh(["git", "-C", str(wt), "apply", "--check", str(patch)])
        if chk.returncode != 0:
            three = sh(["git", "-C", str(wt), "apply", "--3way", str(patch)])
            if three.returncode != 0:
                print(f"{name}: patch does not apply on HEAD: {chk.stderr.strip()[:200]}")
                return 1
            sh(["git", "-C", str(wt), "reset", "-q"])
            new_patch = subprocess.run(["git", "-C", str(wt), "diff"], capture_output=True).stdout
            sh(["git", "-C", str(wt), "checkout", "--", "."])
            result["rebased"] = True
        else:
            new_patch = patch.read_bytes()
        clean = sh([PY, str(src_dir / "demo.py")], cwd=str(wt), env=env, timeout=600)
        result["demo_clean_exit"] = clean.returncode
        tmp_patch = wt / ".seed.patch"
        tmp_patch.write_bytes(new_patch)
        ap = sh(["git", "-C", str(wt), "apply", str(tmp_patch)])
        if ap.returncode != 0:
            print(f"{name}: apply failed: {ap.stderr[:200]}")
            return 1
        tmp_patch.unlink()
        broken = sh([PY, str(src_dir / "demo.py")], cwd=str(wt), env=env, timeout=600)
        result["demo_patched_exit"] = broken.returncode
        suite = sh(f"{PY} -m pytest -q -p no:cacheprovider -n 8 --dist loadfile --basetemp=/tmp/pytest-verify-{name} tests 2>&1 | tail -1", cwd=str(wt), env=env)
        result["suite_with_patch"] = suite.stdout.strip()
        ok = clean.returncode == 0 and broken.returncode != 0 and "377 passed" in suite.stdout and "failed" not in suite.stdout
        result["confirmed"] = ok
        print(json.dumps(result))
        if ok:
            dst = VERIF / "seeded" / name
            dst.mkdir(parents=True, exist_ok=True)
            (dst / "patch.diff").write_bytes(new_patch)
            shutil.copy(src_dir / "demo.py", dst / "demo.py")
            if (src_dir / "notes.md").exists():
                shutil.copy(src_dir / "notes.md", dst / "notes.md")
            meta = {"property": name.split("-")[0], "confirmed": result, "needs": "see notes.md", "runs": []}
            (dst / "meta.json").write_text(json.dumps(meta, indent=1))
        return 0 if ok else 1
    finally:
        sh(["git", "-C", REPO, "worktree", "remove", "--force", str(wt)])
        shutil.rmtree(f"/tmp/pytest-verify-{name}", ignore_errors=True)


def run(name: str, props: list[str], extra: list[str]) -> int:
    dst = VERIF / "seeded" / name
    meta = json.loads((dst / "meta.json").read_text())
    props = props or [meta["property"]]
    status = sh(["git", "-C", REPO, "status", "--porcelain"]).stdout.strip()
    if status:
        print("refusing: /repo has uncommitted changes")
        return 2
    ap = sh(["git", "-C", REPO, "apply", str(dst / "patch.diff")])
    if ap.returncode != 0:
        print(f"{name}: patch does not apply to /repo: {ap.stderr[:200]}")
        return 2
    try:
        for prop in props:
            t0 = time.time()
            out = sh([str(VERIF / "check"), prop, "--tier", "quick"] + extra, cwd=str(VERIF), timeout=3600)
            lines = [l for l in out.stdout.splitlines() if l.startswith(("VIOLATION", "KNOWN", "HARNESS", "  ")) or " quick: " in l]
            caught = out.returncode == 1 and any(l.startswith("VIOLATION") for l in lines)
            print(f"== {name} under check {prop}: exit {out.returncode} caught={caught} ({time.time() - t0:.0f}s)")
            for l in lines[:8]:
                print("   ", l[:260])
            meta["runs"] = [r for r in meta["runs"] if r["check"] != prop] + [{
                "check": prop, "cmd": f"./check {prop} --tier quick {' '.join(extra)}".strip(), "exit": out.returncode, "caught": caught,
                "first_lines": [l for l in lines if not l.startswith("KNOWN")][:4], "verif_rev": sh(["git", "-C", str(VERIF), "rev-parse", "--short", "HEAD"]).stdout.strip()}]
    finally:
        sh(["git", "-C", REPO, "checkout", "--", "."])
    (dst / "meta.json").write_text(json.dumps(meta, indent=1))
    return 0


if __name__ == "__main__":
    if sys.argv[1] == "verify":
        sys.exit(verify(sys.argv[2], sys.argv[3]))
    if sys.argv[1] == "run":
        args = sys.argv[3:]
        extra = []
        if "--" in args:
            i = args.index("--")
            args, extra = args[:i], args[i + 1:]
        sys.exit(run(sys.argv[2], args, extra))
