#!/bin/sh
# run every stored seeded change against the quick check of its property (default budgets), one line per change
cd /verif
for d in seeded/*/; do
  m=$(basename $d)
  if grep -q neutralised_by $d/meta.json; then echo "== $m neutralised (see meta.json)"; continue; fi
  /venv/bin/python tools_seeded.py run $m -- --jobs ${MATRIX_JOBS:-16} 2>&1 | grep "^== "
done
