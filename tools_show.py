import json,sys
for f in sys.argv[1:]:
    d=json.load(open(f))
    c=d['program']['config']
    print(f.split('/')[-1], {k:c[k] for k in ('version','gc','start','two_ws','tidy','h5repack') if k in c})
    print("  ", d['violation']['tag'], d['violation']['discr'], d['violation']['detail'][:300])
    for op in d['program']['ops']:
        o=dict(op); o.pop('sub',None)
        if 'args' in o: o['args']={k:v for k,v in o['args'].items() if k not in ('vertices',)}
        print("     ",o)
