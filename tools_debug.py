"""Debug helper: replay a file in-process and drop into a callback at the violation."""
import json, sys, os, gc
sys.path[:0]=["/repo","/verif"]
from sim import scenarios, kernel
from sim.snapshot import ustr
import uuid
path=sys.argv[1]
d=json.load(open(path))
scn=scenarios.make(*d["scenario"])
import sim.world as W
orig=W.World.do_lookup
def dbg(self, op):
    try:
        return orig(self, op)
    except kernel.Violation as v:
        import re
        m=re.search(r"\{[0-9a-f-]{36}\}", v.detail)
        if m:
            e=self.h[op["h"]].ws.get_entity(uuid.UUID(m.group(0).strip("{}")))[0]
            print("ENTITY", e, "slots", list(self.slots))
            for r in gc.get_referrers(e):
                print("  REF", type(r).__name__, str(r)[:160])
                if isinstance(r, list):
                    for rr in gc.get_referrers(r):
                        print("      LISTREF", type(rr).__name__, str(rr)[:160])
        raise
W.World.do_lookup=dbg
res=scn.execute(d["seed"], d["program"])
print(res["status"], res["violation"])
