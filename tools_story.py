"""Debug helper: replay a C18 file in-process printing the library calls the ops make."""
import json, sys
sys.path[:0] = ["/repo", "/verif"]
import numpy as np
np.set_printoptions(precision=6, suppress=True, linewidth=200)
from sim import registry
d = json.load(open(sys.argv[1]))
scn = registry.make(*d["scenario"]) if "scenario" in d else registry.make("C18")
from geoh5py.objects import Drillhole
orig_add = Drillhole.add_data
def add_data(self, data, **kw):
    print("  add_data", {k: {a: (np.asarray(b).tolist() if a in ("depth", "from-to", "values") else b) for a, b in v.items()} for k, v in data.items()}, kw)
    return orig_add(self, data, **kw)
Drillhole.add_data = add_data
for name in ("collar", "surveys", "default_collocation_distance"):
    prop = getattr(Drillhole, name)
    def mk(prop, name):
        def fset(self, value):
            print(f"  {name} =", np.asarray(value).tolist())
            return prop.fset(self, value)
        return fset
    setattr(Drillhole, name, property(prop.fget, mk(prop, name)))
print(d["program"]["config"])
print([o["k"] for o in d["program"]["ops"]])
res = scn.execute(d["seed"], d["program"])
print(res["status"], res["violation"])
