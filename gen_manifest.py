"""Regenerates MANIFEST.json from the tables below (single source of truth for the check list)."""
import json

CHECKS = {
 "C01": ("exploration", "world machine; MODEL = LIVE = REOPEN = RAW(reachable) at every session boundary",
         "Seeded search over histories x GC placements x session boundaries (~40 s quick, 900 s thorough, 16 processes). A clean batch is evidence, not proof; strength comes from the independent raw-h5py reader, the reference model and thousands of distinct interleavings per batch.", "5 C01"),
 "C02": ("exploration", "world machine; independent structural validator (rules R1-R11) on every closed file",
         "Same histories as C01 including removals through both entry points, re-parenting, cross-workspace copies and drillhole groups; every close along the way is validated with sim/rawgeoh5.validate, written from the format documentation without importing geoh5py.", "5 C02"),
 "C05": ("exploration", "world machine (removal-heavy) + concat machine (concatenated holes and data); lookups/listings of removed identifiers, RAW absence at every close, survivors equal the model, refused removals change nothing",
         "Seeded search over trees x removed entity x entry point x references held or dropped x GC placement x follow-up operations.", "5 C05"),
 "C06": ("exploration", "world machine, identifier-heavy; explicit identifier reuse in six classes, copy identifier rules, uniqueness LIVE after every creating event and RAW at every close",
         "Seeded search over create / copy / remove / re-create sequences across one or two workspaces with caller-supplied identifiers that are fresh, in use (same kind, other kind, property group, root) or belong to removed entities.", "5 C06"),
 "C09": ("exploration", "world machine + concat machine (row slices of other holes); RAW per-node sub-digest diff around every single event must lie within what the operation may touch; boundaries without mutation change nothing",
         "Every event of every history is judged, including non-mutating ones (observe, lookups, listings, GC, close/re-open).", "5 C09"),
 "C12": ("exploration", "world machine (copy-heavy) + concat machine (hole and drillhole-group copies, same and other workspace) + survey machine (copies of linked surveys); identifier-free subtree signatures of copy and source, source LIVE unchanged at copy time and after every later edit of either side",
         "Seeded search over entity class x target (same parent, other group, other workspace) x copy_children x clear_cache x later edits of copy or source.", "5 C12"),
}
NA = {
 "C08": "pure function of the value written (quantifier: inputs only); no schedule, fault, crash point or history for a simulator to own",
 "C13": "pure geometry of (object, box) (quantifier: inputs only)",
 "C14": "pure function of (ui.json dict, workspace content) (quantifier: inputs, configurations); its environmental part (workspace open/closed/read-only) is decided by C10/C11",
 "C16": "pure function of the list of inputs to merge (quantifier: inputs only)",
 "C17": "formula conformance over inputs and configurations; the one history-dependent aspect (stale centroid cache after a setter) is covered by C03's LIVE-vs-REOPEN differential",
}
PENDING = []

def main():
    import importlib.util, os
    extra = {}
    if os.path.exists("manifest_extra.py"):
        spec = importlib.util.spec_from_file_location("manifest_extra", "manifest_extra.py")
        mod = importlib.util.module_from_spec(spec); spec.loader.exec_module(mod)
        extra = mod.CHECKS
    checks = dict(CHECKS); checks.update(extra)
    man = {
        "version": 1,
        "setup_cmd": "./check selftest --setup",
        "hooks": {"guard": "GEOH5PY_VERIF", "enable": "no source hooks: every seam (uuid4, gc, clock, h5repack subprocess, tempdir, numpy.divide) is monkeypatched from /verif/sim/kernel.py at run start; the guard name is reserved and unused",
                  "baseline_off_cmd": "cd /repo && /venv/bin/python -m pytest -ra -q -p no:cacheprovider --timeout=900 --continue-on-collection-errors tests",
                  "source_commits": [], "add_only": True},
        "engines": [{"name": "geoh5sim", "path": "/verif/sim", "serves_properties": sorted(checks), "kind_free_text": "deterministic simulation with fault injection: seeded scheduler over API operations, GC points, session boundaries, handles and damage; own shrinker and replay format"}],
        "checks": [], "not_applicable": [{"property_id": k, "reason": v} for k, v in sorted(NA.items())],
        "notes": "See DESIGN.md. known_findings.jsonl lists recorded (known) and repaired (fixed) defects.",
    }
    for pid in sorted(checks):
        level, technique, text, ref = checks[pid]
        man["checks"].append({
            "property_id": pid, "quick_cmd": f"./check {pid} --tier quick", "thorough_cmd": f"./check {pid} --tier thorough",
            "evidence_file": f"/verif/evidence/{pid}.json", "replay_cmd_template": f"./check {pid} --replay {{path}}", "engine": "geoh5sim",
            "level_claimed": {"category": level, "text": text, "design_ref": ref},
            "level_note": "trusted base: h5py/HDF5/numpy, sim/rawgeoh5.py (independent reader), the reference model; faults not injected: I/O errors, torn writes, process kills (no property promises anything under them)",
            "technique": "deterministic simulation with fault injection: " + technique,
        })
    for pid in PENDING:
        if pid not in checks:
            man["not_applicable"].append({"property_id": pid, "reason": "check not built yet in this revision (planned, see DESIGN.md 5)"})
    json.dump(man, open("MANIFEST.json", "w"), indent=1)
    print("checks:", [c["property_id"] for c in man["checks"]])

main()
