#!/bin/sh
# Thorough runs of every check, one after the other, against a private clean worktree of /repo's HEAD
# (so that seeded changes applied to /repo in the meantime do not leak into the soak).
#   usage: tools_soak.sh [seed] [jobs] [budget-seconds] [checks...]
seed=${1:-7}; jobs=${2:-8}; budget=${3:-900}; shift 3 2>/dev/null
checks=${*:-$(jq -r '.checks[].property_id' MANIFEST.json)}
wt=/tmp/soak-repo-$$
git -C /repo worktree add -q --detach $wt HEAD || exit 2
trap 'git -C /repo worktree remove --force $wt' EXIT
for id in $checks; do
  start=$(date +%s)
  VERIF_REPO=$wt ./check $id --tier thorough --seed $seed --jobs $jobs --budget $budget > soak-$id.log 2>&1
  code=$?
  echo "$id seed=$seed exit=$code $(( $(date +%s) - start ))s | $(grep -c '^VIOLATION' soak-$id.log) violations | $(tail -1 soak-$id.log)"
  grep -A2 '^VIOLATION' soak-$id.log | cut -c1-400
  grep '^HARNESS' soak-$id.log | head -3
done
