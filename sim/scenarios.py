"""Scenario registry: property id -> scenario object (see runner.py for the protocol)."""

from __future__ import annotations

import random

from . import oracles as orc
from .kernel import H, Sim, Violation
from .rawgeoh5 import sha
from .world import MUTATING, World


class BaseScenario:
    prop = "?"
    level = "exploration"
    rule = ""
    stubs = ["h5repack (subprocess)"]
    assumptions: list[str] = []
    expected_probes: list[str] = []

    def simplify_config(self, cfg):
        return []

    def extra_coverage(self, agg):
        return {}


class WorldScenario(BaseScenario):
    ORACLES = {
        "C01": lambda: [orc.ModelOracle("C01")],
        "C02": lambda: [orc.StructOracle()],
        "C05": lambda: [orc.ModelOracle("C05"), orc.RemovalOracle()],
        "C06": lambda: [orc.UidOracle()],
        "C09": lambda: [orc.IsolationOracle()],
        "C12": lambda: [orc.CopyOracle(), orc.ModelOracle("C12")],
    }
    PROBES = {
        "C01": ["reopen_fresh", "reopen_same", "move", "copy_same", "close_with_uncollected_removed", "target_via_slot"],
        "C02": ["reopen_fresh", "move", "copy_same", "copy_cross", "rm_parent", "rm_ws"],
        "C05": ["rm_ws", "rm_parent", "rm_refused", "rm_data_in_2_pgs", "rm_data_in_1_pgs", "pg_emptied", "lookup_removed_judged"],
        "C06": ["dup_live_same", "dup_live_other", "dup_removed", "dup_pg", "dup_fresh", "copy_same", "copy_cross"],
        "C09": ["reopen_fresh", "copy_same", "rm_ws", "retype", "retype_old_type_shared"],
        "C12": ["copy_same", "copy_cross", "copy_of_copy"],
    }

    def __init__(self, prop: str):
        self.prop = prop
        self.expected_probes = self.PROBES.get(prop, [])
        self.rule = (
            "one evaluation = one seeded history of the world machine (<= 40 public-API operations and schedule/fault events: "
            "scheduled garbage collections at op/io-call/source-line granularity, kept or dropped references, close + fresh re-open, "
            "close + same-object re-open, BytesIO start + save_as, h5repack stub outcomes, second workspace) with the oracles of "
            f"{prop} evaluated during and after the run. distinct = distinct abstract trace (sequence of op kind, entity class, outcome class); "
            "non-trivial = trace with >= 3 successful mutating operations and >= 1 schedule/fault event landing right after a mutation."
        )
        self.assumptions = [
            "h5py/HDF5 and numpy are trusted; the independent reader sim/rawgeoh5.py is trusted",
            "I/O errors, torn writes and process kills are not injected: no property promises anything under them (HDF5 has no journal)",
            "value pools are restricted to values exactly representable in the stored type",
        ]

    @staticmethod
    def prelude(sim, what):
        """Something else the same process did before this history (another workspace, other classes): state the library keeps
        outside its workspaces -- class attributes, module-level tables -- is part of the world a history runs in."""
        import numpy as np
        from geoh5py import Workspace, objects

        ws = Workspace.create(sim.path("prelude.geoh5"))
        try:
            if what == "survey_copy":
                verts = np.c_[np.arange(4.0), np.zeros(4), np.zeros(4)]
                rx = objects.AirborneTEMReceivers.create(ws, vertices=verts, name="rx")
                tx = objects.AirborneTEMTransmitters.create(ws, vertices=verts + 1.0, name="tx")
                rx.transmitters = tx
                rx.channels = [1.0, 2.0]
                rx.copy()
                cur = objects.CurrentElectrode.create(ws, vertices=verts, parts=np.array([0, 0, 1, 1]), name="c")
                cur.add_default_ab_cell_id()
                pot = objects.PotentialElectrode.create(ws, vertices=verts, name="p")
                pot.current_electrodes = cur
                pot.copy()
            elif what == "drillholes":
                grp = __import__("geoh5py").groups.DrillholeGroup.create(ws, name="g")
                hole = objects.Drillhole.create(ws, parent=grp, collar=[0.0, 0.0, 0.0], name="h")
                hole.add_data({"a": {"depth": np.arange(3.0), "values": np.arange(3.0)}})
                grp.copy()
            sim.probe("prelude:" + what)
        finally:
            ws.close()

    def make_config(self, rng: random.Random) -> dict:
        cfg = {
            "version": rng.choices([2.1, 2.0, 1.0], [6, 3, 1])[0],
            "start": rng.choices(["disk", "bytesio"], [5, 1])[0],
            "two_ws": rng.random() < (0.5 if self.prop in ("C06", "C12", "C02", "C09") else 0.4 if self.prop == "C01" else 0.25),
            "gc": rng.choices(["none", "op", "io", "line"], [2, 4, 3, 1])[0],
            "gc_density": rng.choice([0.15, 0.4, 0.8]),
            "keep_prob": rng.choice([0.0, 0.3, 0.7]),
            "h5repack": rng.choices(["absent", "ok", "fail"], [3, 2, 1])[0],
            "n_ops": rng.choice([6, 10, 16, 24, 32]),
            "tidy": rng.random() < 0.9,
            "disabled": [],
        }
        # swarm: disable a random subset of operation kinds
        optional = ["add_comment", "add_file", "set_meta", "set_flag", "move", "pg_add", "pg_rm", "pg_del", "rm_parent", "rm_ws",
                    "copy", "reopen_same", "list", "observe", "lookup"]
        for kind in optional:
            if rng.random() < 0.15:
                cfg["disabled"].append(kind)
        if self.prop in ("C12", "C01", "C09"):
            cfg["prelude"] = rng.choice([None, None, None, "survey_copy", "drillholes"])
        if self.prop in ("C12", "C01") and cfg["two_ws"] and rng.random() < 0.3:
            # the two files are of different format versions (drillholes are stored differently from 2.0 on)
            cfg["version_b"] = rng.choice([v for v in (2.1, 2.0, 1.0) if v != cfg["version"]])
            if rng.random() < 0.5:
                cfg["version"], cfg["version_b"] = 1.0, rng.choice([2.0, 2.1])     # (plain drillholes copied into a concatenated store)
        return cfg

    def simplify_config(self, cfg):
        out = []
        if cfg.get("gc") != "none":
            for mode in ("none", "op"):
                if cfg["gc"] != mode:
                    out.append({**cfg, "gc": mode})
        if cfg.get("two_ws"):
            out.append({**cfg, "two_ws": False})
        if cfg.get("start") == "bytesio":
            out.append({**cfg, "start": "disk"})
        if cfg.get("version_b") is not None:
            out.append({**cfg, "version_b": None})
        if cfg.get("version") != 2.1:
            out.append({**cfg, "version": 2.1})
        if cfg.get("h5repack") != "absent":
            out.append({**cfg, "h5repack": "absent"})
        return out

    def execute(self, seed: int, program: dict | None = None) -> dict:
        rng = random.Random(H(seed, "program"))
        if program is None:
            cfg = self.make_config(rng)
            ops = None
            n_ops = cfg["n_ops"]
        else:
            cfg = program["config"]
            ops = program["ops"]
            n_ops = len(ops)
        sim = Sim(seed, cfg)
        executed = []
        status, violation, suspect = "ok", None, None
        world = None
        with sim.running():
            world = World(sim, cfg, self.prop, self.ORACLES[self.prop]())
            try:
                if cfg.get("prelude"):
                    self.prelude(sim, cfg["prelude"])
                world.open_initial()
                if ops is None and cfg.get("version_b") is not None and cfg.get("two_ws") and rng.random() < 0.6:
                    # opening moves of a mixed-version run: a drillhole group with a hole in the first file, stored and loaded again,
                    # then copied into the second file, which is closed
                    from . import build as _build

                    sub = lambda: rng.getrandbits(64)  # noqa: E731
                    world.pending = [
                        {"id": -1, "k": "mk_group", "sub": sub(), "h": "A", "keep": False, "cls": "DrillholeGroup", "name": "dh group",
                         "t": {"by": None, "n": 0, "fb": 0, "want": "container"}},
                        {"id": -1, "k": "mk_object", "sub": sub(), "h": "A", "keep": False, "cls": "Drillhole",
                         "t": {"by": 0, "n": 0, "fb": 0, "want": "groupish" if world.version("A") >= 2.0 else "container"},
                         "args": _build.gen_object_args(rng, "Drillhole")},
                        {"id": -1, "k": "close_reopen", "sub": sub(), "h": "A", "keep": False},
                        {"id": -1, "k": "copy", "sub": sub(), "h": "A", "keep": False, "t": {"by": 0, "n": 0, "fb": 0, "want": "entity"},
                         "dh": "B", "d": {"by": None, "n": 0, "fb": 0, "want": "container"}, "children": True, "clear": False},
                        {"id": -1, "k": "close_reopen", "sub": sub(), "h": "B", "keep": False},
                    ]
                    sim.probe("mixed_version_opening")
                if ops is None and not getattr(world, "pending", None) and cfg.get("two_ws") and self.prop in ("C09", "C06") and rng.random() < 0.5:
                    # opening moves of half of the two-workspace runs: an object whose data sit in a property group (what cross-workspace
                    # copies with partly retained identifiers need)
                    from . import build as _build

                    sub = lambda: rng.getrandbits(64)  # noqa: E731
                    world.pending = [
                        {"id": -1, "k": "mk_object", "sub": sub(), "h": "A", "keep": False, "cls": "Points",
                         "t": {"by": None, "n": 0, "fb": 0, "want": "container"}, "args": {"cls": "Points", "name": "grouped", "vertices": [[0.0, 0.0, 0.0], [1.0, 0.5, 0.0], [2.0, 0.25, 0.0]]}},
                        {"id": -1, "k": "add_data", "sub": sub(), "h": "A", "keep": False, "t": {"by": 0, "n": 0, "fb": 0, "want": "object"},
                         "dkind": "float", "assoc": "VERTEX", "len": "exact", "name": "g1", "pg": "pgA", "vseed": rng.getrandbits(32)},
                        {"id": -1, "k": "add_data", "sub": sub(), "h": "A", "keep": False, "t": {"by": 0, "n": 0, "fb": 0, "want": "object"},
                         "dkind": "float", "assoc": "VERTEX", "len": "exact", "name": "g2", "pg": "pgA", "vseed": rng.getrandbits(32)},
                    ]
                    sim.probe("grouped_object_opening")
                for i in range(n_ops):
                    op = ops[i] if ops is not None else world.gen_op(rng, i)
                    executed.append(op)
                    world.apply(op)
                    if world.suspect:
                        break
                if not world.suspect:
                    world.finish()
            except Violation as vio:
                violation = {"prop": vio.prop, "tag": vio.tag, "detail": vio.detail, "discr": vio.discr, "event": sim.events}
                sim.record("violation", vio.prop, vio.tag, vio.discr)
                # a violation of another property stops the run (state is suspect) but is that
                # property's check to report, not this one's
                status = "violation" if vio.prop == self.prop else "foreign"
            if world.suspect and status == "ok":
                status, suspect = "suspect", world.suspect
            stats = self.stats(sim, world, executed)
            digest = sim.digest()
            world.slots.clear()
            for handle in world.h.values():
                if handle.ws is not None:
                    try:
                        handle.ws.close()
                    except Exception:  # pylint: disable=broad-except
                        pass
                    handle.ws = None
        return {"status": status, "violation": violation, "suspect": suspect, "program": {"config": cfg, "ops": executed},
                "stats": stats, "digest": digest}

    def stats(self, sim, world, executed):
        trace = world.trace
        return {
            "events": sim.events, "ops": len(executed), "faults": dict(sim.faults), "probes": dict(sim.probes),
            "oracle_evals": dict(sim.oracle_evals), "trace_hash": sha(trace),
            "nontrivial": world.n_mut >= 3 and world.fault_after_mut >= 1,
            "states": sorted(world.states), "clock_lo": sim.clock.lo, "clock_hi": sim.clock.hi,
            "cell": ("faulted" if any(k.startswith(("gc:", "ev:")) for k in sim.faults) else "fault_free"),
        }


def make(name: str, *args):
    if name in ("C02", "C06"):
        return WorldScenario(name)
    from . import registry

    return registry.make(name, *args)
