"""
Batch driver shared by all scenarios: seeded runs on a process pool, violation minimisation
(ddmin over the recorded operation list), replay files, known-finding matching, evidence.

Scenario protocol
-----------------
scn.prop                        property id
scn.level                       "exploration" | "fault_enumeration"
scn.execute(seed, program)      -> result dict:
    {"status": "ok"|"violation"|"suspect", "violation": {...}|None, "program": {"config":..., "ops":[...]},
     "stats": {...}, "digest": str, "suspect": str|None}
scn.rule                        text for evidence.coverage.rule
"""

from __future__ import annotations

import faulthandler
import json
import multiprocessing
import os
import sys
import time
import traceback
from concurrent.futures import ProcessPoolExecutor, as_completed
from concurrent.futures.process import BrokenProcessPool
from pathlib import Path

from .kernel import H, HarnessError

VERIF = Path(__file__).resolve().parent.parent
KNOWN_FILE = VERIF / "known_findings.jsonl"


def run_seed(base: int, prop: str, i: int) -> int:
    return H(base, prop, i)


# ------------------------------------------------------------------------------------------- known findings
def load_known() -> list[dict]:
    out = []
    if KNOWN_FILE.exists():
        for line in KNOWN_FILE.read_text().splitlines():
            line = line.strip()
            if line and not line.startswith("#"):
                out.append(json.loads(line))
    return out


def match_known(known: list[dict], prop: str, violation: dict) -> dict | None:
    for entry in known:
        if entry.get("status") != "known" or entry["property"] != prop:
            continue
        sig = entry["signature"]
        if sig["oracle"] not in ("*", violation["tag"]):
            continue
        want = sig.get("discr", {})
        if all(violation["discr"].get(k) == v for k, v in want.items()):
            return entry
    return None


def vio_class(v: dict) -> str:
    return json.dumps([v["prop"], v["tag"], v["discr"]], sort_keys=True)


# ------------------------------------------------------------------------------------------- worker side
_SCN = None


def _worker_init(scn_factory_args):
    global _SCN  # pylint: disable=global-statement
    from . import scenarios

    _SCN = scenarios.make(*scn_factory_args)
    faulthandler.enable()


def _guarded(fn, *args):
    faulthandler.dump_traceback_later(120, exit=True)
    try:
        return fn(*args)
    finally:
        faulthandler.cancel_dump_traceback_later()


def _run_one(seed: int, shrink: bool, known_classes: list[str]):
    scn = _SCN
    t0 = time.time()
    try:
        res = _guarded(scn.execute, seed, None)
    except HarnessError as err:
        return {"status": "harness", "seed": seed, "error": f"{err}", "tb": traceback.format_exc()}
    except Exception as err:  # pylint: disable=broad-except
        return {"status": "harness", "seed": seed, "error": f"{type(err).__name__}: {err}", "tb": traceback.format_exc()}
    res["seed"] = seed
    res["wall"] = time.time() - t0
    if res["status"] == "violation" and shrink:
        cls = vio_class(res["violation"])
        res["class"] = cls
        if cls in known_classes:
            # known finding already minimised earlier in this batch: do not spend time again
            res["min_program"] = res["program"]
            res["shrink_runs"] = 0
        else:
            try:
                res["min_program"], res["shrink_runs"], res["violation"] = shrink_program(scn, seed, res["program"], res["violation"])
            except Exception as err:  # pylint: disable=broad-except
                res["min_program"] = res["program"]
                res["shrink_runs"] = -1
                res["shrink_error"] = f"{type(err).__name__}: {err}"
    return res


def shrink_program(scn, seed, program, violation, budget_runs=300, budget_s=45.0):
    """ddmin over program['ops'], then scenario-specific simplification of the config."""
    target = vio_class(violation)
    t_end = time.time() + budget_s
    runs = 0
    best_v = violation

    def test(cand_program):
        nonlocal runs, best_v
        if runs >= budget_runs or time.time() > t_end:
            return False
        runs += 1
        try:
            res = _guarded(scn.execute, seed, cand_program)
        except Exception:  # pylint: disable=broad-except
            return False
        if res["status"] == "violation" and vio_class(res["violation"]) == target:
            best_v = res["violation"]
            return True
        return False

    cfg = program["config"]
    lists = {key: list(program[key]) for key in getattr(scn, "list_keys", ["ops"])}
    extra = {k: v for k, v in program.items() if k not in lists and k != "config"}

    def build(cfg_, lists_):
        return {"config": cfg_, **extra, **lists_}

    for key in lists:
        ops = lists[key]
        # 1. ddmin
        n = 2
        while len(ops) >= 2 and runs < budget_runs and time.time() < t_end:
            chunk = max(1, len(ops) // n)
            reduced = False
            for start in range(0, len(ops), chunk):
                cand = ops[:start] + ops[start + chunk:]
                if (cand or key != "ops") and test(build(cfg, {**lists, key: cand})):
                    ops = cand
                    lists[key] = ops
                    n = max(n - 1, 2)
                    reduced = True
                    break
            if not reduced:
                if chunk == 1:
                    break
                n = min(n * 2, len(ops))
        # 2. single-op removal pass
        i = 0
        while i < len(ops) and runs < budget_runs and time.time() < t_end:
            cand = ops[:i] + ops[i + 1:]
            if (cand or key != "ops" or len(lists) > 1) and test(build(cfg, {**lists, key: cand})):
                ops = cand
                lists[key] = ops
            else:
                i += 1
    # 3. config simplification
    for new_cfg in scn.simplify_config(cfg):
        if test(build(new_cfg, lists)):
            cfg = new_cfg
    return build(cfg, lists), runs, best_v


# ------------------------------------------------------------------------------------------- batch
class Batch:
    def __init__(self, scn_args, tier: str, seed: int, jobs: int, budget_s: float, max_runs: int | None = None):
        from . import scenarios

        self.scn_args = scn_args
        self.scn = scenarios.make(*scn_args)
        self.tier = tier
        self.seed = seed
        self.jobs = jobs
        self.budget_s = budget_s
        self.max_runs = max_runs
        self.known = load_known()

    def run(self) -> int:
        scn = self.scn
        prop = scn.prop
        t0 = time.time()
        results, harness_errors, suspects = [], [], []
        violations: dict[str, dict] = {}
        agg = {"events": 0, "faults": {}, "probes": {}, "oracle_evals": {}, "traces": set(), "nontrivial": set(), "states": set(),
               "clock_lo": None, "clock_hi": None, "runs": 0, "ops": 0, "cells": {}, "foreign": {}}
        samples = []
        ctx = multiprocessing.get_context("fork")
        deadline = t0 + self.budget_s
        next_index = 0
        known_classes: list[str] = []
        try:
            with ProcessPoolExecutor(max_workers=self.jobs, mp_context=ctx, initializer=_worker_init, initargs=(self.scn_args,)) as pool:
                pending = set()

                def submit():
                    nonlocal next_index
                    if self.max_runs is not None and next_index >= self.max_runs:
                        return False
                    fut = pool.submit(_run_one, run_seed(self.seed, prop, next_index), True, list(known_classes))
                    fut.index = next_index
                    pending.add(fut)
                    next_index += 1
                    return True

                for _ in range(self.jobs * 2):
                    submit()
                while pending:
                    done = [f for f in list(pending) if f.done()]
                    if not done:
                        time.sleep(0.01)
                        if time.time() > deadline + 180:
                            raise HarnessError("batch did not drain within 180 s after the deadline")
                        continue
                    for fut in done:
                        pending.discard(fut)
                        res = fut.result()
                        if res["status"] == "harness":
                            harness_errors.append(res)
                            continue
                        self._aggregate(agg, res, samples)
                        if res["status"] == "suspect":
                            suspects.append({"seed": res["seed"], "what": res["suspect"]})
                        if res["status"] == "foreign":
                            v = res["violation"]
                            key = f"{v['prop']}:{v['tag']}"
                            agg["foreign"][key] = agg["foreign"].get(key, 0) + 1
                        if res["status"] == "violation":
                            cls = res["class"]
                            entry = violations.get(cls)
                            if entry is None or (res.get("shrink_runs", 0) > 0 and _n_ops(res["min_program"]) < _n_ops(entry["min_program"])):
                                res["count"] = (entry or {}).get("count", 0) + 1
                                violations[cls] = res
                            else:
                                entry["count"] += 1
                            if match_known(self.known, res["violation"]["prop"], res["violation"]) and cls not in known_classes:
                                known_classes.append(cls)
                        if time.time() < deadline and not harness_errors:
                            submit()
        except BrokenProcessPool as err:
            harness_errors.append({"status": "harness", "error": f"worker died: {err}", "tb": ""})
        wall = time.time() - t0
        return self._report(agg, violations, harness_errors, suspects, samples, wall)

    @staticmethod
    def _aggregate(agg, res, samples):
        st = res.get("stats", {})
        for vd in st.get("known_hits", []):
            agg.setdefault("known_hits", {}).setdefault(vio_class(vd), {"v": vd, "n": 0, "seed": res["seed"]})["n"] += 1
        agg["runs"] += 1
        agg["evals"] = agg.get("evals", 0) + st.get("crash_points", st.get("evaluations", 1))
        agg["events"] += st.get("events", 0)
        agg["ops"] += st.get("ops", 0)
        for key in ("faults", "probes", "oracle_evals"):
            for name, n in st.get(key, {}).items():
                agg[key][name] = agg[key].get(name, 0) + n
        if "sub_traces" in st:
            agg["traces"].update(st["sub_traces"])
            agg["nontrivial"].update(st.get("sub_nontrivial", []))
        elif st.get("trace_hash"):
            agg["traces"].add(st["trace_hash"])
            if st.get("nontrivial"):
                agg["nontrivial"].add(st["trace_hash"])
        agg["states"].update(st.get("states", []))
        cell = st.get("cell", "default")
        agg["cells"][cell] = agg["cells"].get(cell, 0) + 1
        for key, fn in (("clock_lo", min), ("clock_hi", max)):
            val = st.get(key)
            if val is not None:
                agg[key] = val if agg[key] is None else fn(agg[key], val)
        if len(samples) < 3 and st.get("nontrivial") and res["status"] == "ok":
            samples.append({"seed": res["seed"], "config": res["program"]["config"],
                            "ops": [_brief(o) for o in res["program"]["ops"]]})

    def _report(self, agg, violations, harness_errors, suspects, samples, wall) -> int:
        scn = self.scn
        prop = scn.prop
        new_violations, known_seen = [], []
        replay_dir = VERIF / "replays" / prop
        for cls, res in sorted(violations.items()):
            v = res["violation"]
            entry = match_known(self.known, v["prop"], v)
            if entry is not None:
                known_seen.append((entry, res))
                print(f"KNOWN-FINDING: property={v['prop']} {entry['what']} [{res['count']} runs; e.g. seed {res['seed']}]")
                # developer tool (never during a registered check): keep one minimised replay per listed finding
                if os.environ.get("VERIF_WRITE_KNOWN_REPLAYS") == "1" and entry.get("replay"):
                    dst = VERIF / entry["replay"]
                    if not dst.exists():
                        dst.parent.mkdir(parents=True, exist_ok=True)
                        dst.write_text(json.dumps({
                            "property": v["prop"], "check": prop, "scenario": list(self.scn_args), "seed": res["seed"],
                            "program": res["min_program"], "original_ops": _n_ops(res["program"]), "violation": v, "known_finding": entry["what"],
                        }, indent=1, default=repr))
                continue
            replay_dir.mkdir(parents=True, exist_ok=True)
            path = replay_dir / f"{res['seed']}-{v['tag']}.json"
            path.write_text(json.dumps({
                "property": v["prop"], "check": prop, "scenario": list(self.scn_args), "seed": res["seed"],
                "program": res["min_program"], "original_ops": _n_ops(res["program"]),
                "violation": v, "shrink_runs": res.get("shrink_runs"), "count_in_batch": res["count"],
            }, indent=1, default=repr))
            new_violations.append((v, path, res))
            print(f"VIOLATION property={v['prop']} replay={path}")
            print(f"  {v['tag']} {v['discr']}: {v['detail'][:300]}")
            print(f"  minimised to {_n_ops(res['min_program'])} ops (from {_n_ops(res['program'])}), seen in {res['count']} runs")
        for cls, hit in sorted(agg.get("known_hits", {}).items()):
            entry = match_known(self.known, hit["v"]["prop"], hit["v"])
            if entry is not None and not any(entry is e for e, _ in known_seen):
                known_seen.append((entry, None))
                print(f"KNOWN-FINDING: property={hit['v']['prop']} {entry['what']} [{hit['n']} cases; e.g. seed {hit['seed']}]")
        for i, he in enumerate(harness_errors[:3]):
            print(f"HARNESS-ERROR: seed={he.get('seed')} {he.get('error')}")
            if he.get("tb") and i == 0:
                print(he["tb"])
        if len(harness_errors) > 3:
            print(f"HARNESS-ERROR: ... {len(harness_errors)} in total")
        for sp in suspects[:5]:
            print(f"NOTE unexpected-exception seed={sp['seed']}: {sp['what']}")
        unreached = [p for p in scn.expected_probes if agg["probes"].get(p, 0) == 0]
        for p in unreached:
            print(f"NOTE probe UNREACHED: {p}")
        runs = max(agg["runs"], 1)
        if not samples:
            samples = [{"note": "no completed non-trivial run in this batch"}]
        evidence = {
            "property_id": prop,
            "tier": self.tier,
            "seed": self.seed,
            "level": scn.level,
            "wall_s": round(wall, 2),
            "violations": len(new_violations),
            "coverage": {
                "evaluations": agg.get("evals", agg["runs"]),
                "histories": agg["runs"],
                "distinct_nontrivial": len(agg["nontrivial"]),
                "rule": scn.rule,
                "samples": samples,
                "runs_per_hour": int(agg.get("evals", agg["runs"]) / max(wall, 1e-6) * 3600),
                "events": agg["events"],
                "operations": agg["ops"],
                "distinct_traces": len(agg["traces"]),
                "distinct_states": len(agg["states"]),
                "sim_clock_span_s": (agg["clock_hi"] - agg["clock_lo"]) if agg["clock_lo"] is not None else 0,
                "faults_fired": dict(sorted(agg["faults"].items())),
                "fault_kinds_not_applicable": ["io_error", "short_write", "torn_write", "lost_write", "disk_full", "process_kill",
                                               "network (no network in geoh5py)"],
                "probes": dict(sorted(agg["probes"].items())),
                "probes_unreached": unreached,
                "oracle_evaluations": dict(sorted(agg["oracle_evals"].items())),
                "cells": agg["cells"],
                "components": {"real": ["geoh5py (working tree of /repo)", "h5py", "HDF5", "numpy", "pydantic"],
                               "stub": scn.stubs},
                "known_findings_seen": [e["what"] for e, _ in known_seen],
                "runs_stopped_by_other_property_violation": dict(sorted(agg["foreign"].items())),
                "unexpected_exceptions": len(suspects),
                "unexpected_exception_samples": suspects[:3],
                "jobs": self.jobs,
                **scn.extra_coverage(agg),
            },
            "assumptions": scn.assumptions,
        }
        (VERIF / "evidence").mkdir(exist_ok=True)
        (VERIF / "evidence" / f"{prop}.json").write_text(json.dumps(evidence, indent=1, default=repr))
        print(f"{prop} {self.tier}: {agg['runs']} runs, {agg['events']} events, {len(agg['nontrivial'])} distinct non-trivial traces, "
              f"{len(new_violations)} violation classes, {len(known_seen)} known findings, {wall:.1f}s")
        if harness_errors:
            return 2
        if new_violations:
            return 1
        return 0


def _n_ops(program: dict) -> int:
    return sum(len(v) for k, v in program.items() if isinstance(v, list) and k in ("ops", "prefix"))


def _brief(op: dict) -> dict:
    out = {k: v for k, v in op.items() if k in ("id", "k", "h", "cls", "dkind", "assoc", "len", "mode", "as", "what", "keep", "dh", "children", "flag", "attr", "fault")}
    return out


# ------------------------------------------------------------------------------------------- replay
def replay(path: str) -> int:
    from . import scenarios

    data = json.loads(Path(path).read_text())
    scn = scenarios.make(*data["scenario"])
    digests = []
    res = None
    for _ in range(2):
        res = scn.execute(data["seed"], data["program"])
        digests.append(res.get("digest"))
    if digests[0] != digests[1]:
        print(f"HARNESS-ERROR: replay is not deterministic ({digests})")
        return 2
    if res["status"] == "violation":
        v = res["violation"]
        same = vio_class(v) == vio_class(data["violation"])
        print(f"VIOLATION property={v['prop']} replay={path}")
        print(f"  {v['tag']} {v['discr']}: {v['detail'][:400]}")
        print(f"  reproduces recorded violation class: {same}; event-log digest {res['digest']}")
        return 1
    print(f"replay {path}: no violation ({res['status']}); digest {res['digest']}")
    return 0
