"""
The world machine: seeded histories of public-API operations and schedule/fault events over
one or two workspaces, with a reference model and pluggable oracles (C01 C02 C05 C06 C09 C12).

Operations are generated online (the generator sees the model) and recorded as JSON-able
records with symbolic targets; replay / shrinking re-executes recorded lists, resolving
targets at run time and skipping operations whose precondition no longer holds.
"""

from __future__ import annotations

import gc
import random
import uuid
from pathlib import Path

import numpy as np

from . import build, compare, rawgeoh5, snapshot
from .kernel import H, HarnessError, Sim, Violation
from .model import TreeModel
from .snapshot import ustr

MUTATING = {"mk_group", "mk_object", "add_data", "add_comment", "add_file", "set_values", "rename", "set_flag",
            "set_meta", "move", "copy", "rm_ws", "rm_parent", "pg_add", "pg_rm", "pg_del", "mk_dup", "pg_new", "move_data", "copy_extent", "type_edit", "retype", "hole_attr", "rm_all", "reattach", "geo_image"}
SCHEDULE = {"gc", "drop", "close_reopen", "reopen_same", "save_as", "list", "lookup", "observe", "tidy"}

BASE_WEIGHTS = {
    "mk_group": 6, "mk_object": 10, "add_data": 12, "add_comment": 2, "add_file": 1, "set_values": 5,
    "rename": 4, "set_flag": 3, "set_meta": 3, "move": 5, "copy": 6, "rm_ws": 5, "rm_parent": 4,
    "pg_add": 4, "pg_rm": 2, "pg_del": 1, "pg_new": 2, "mk_dup": 0, "move_data": 3, "copy_extent": 2, "type_edit": 2, "retype": 1, "hole_attr": 0, "rm_all": 2, "reattach": 2, "geo_image": 0,
    "gc": 5, "drop": 3, "close_reopen": 4, "reopen_same": 2, "save_as": 1, "list": 3, "lookup": 3, "observe": 2,
}
PROFILES = {
    "C01": {"geo_image": 2, "mk_dup": 2},
    "C02": {"retype": 4, "rm_parent": 6, "rm_ws": 8, "set_flag": 6, "move": 7, "copy": 8, "close_reopen": 6, "move_data": 6, "copy_extent": 5, "pg_add": 6},
    "C05": {"add_comment": 5, "add_file": 3, "rm_ws": 12, "rm_parent": 9, "pg_add": 12, "pg_rm": 4, "pg_new": 6, "lookup": 6, "copy": 4, "set_flag": 8, "rm_all": 1, "add_data": 14, "close_reopen": 6},
    "C06": {"mk_dup": 8, "copy": 10, "rm_ws": 6, "rm_parent": 5, "lookup": 4},
    "C09": {"observe": 4, "list": 4, "type_edit": 7, "retype": 8, "copy": 12, "pg_add": 10, "add_data": 16, "geo_image": 2, "add_file": 2, "mk_dup": 3, "rm_all": 1},
    "C12": {"copy": 16, "set_values": 7, "rename": 6, "set_meta": 6, "pg_add": 6, "copy_extent": 6, "pg_new": 3, "geo_image": 3},
}


def uid_obj(text: str) -> uuid.UUID:
    return uuid.UUID(text.strip("{}"))


class Handle:
    def __init__(self, name: str, path: Path):
        self.name = name
        self.path = path
        self.ws = None
        self.model: TreeModel | None = None
        self.bytesio = False
        self.sessions = 0


class World:
    def __init__(self, sim: Sim, cfg: dict, prop: str, oracles=(), known=None):
        self.oracles = list(oracles)
        self.sim = sim
        self.cfg = cfg
        self.prop = prop
        self.known = known
        self.h: dict[str, Handle] = {}
        self.slots: dict[tuple[str, str], object] = {}
        self.created: dict[int, list[tuple[str, str]]] = {}
        self.trace: list[str] = []      # abstract trace (op kind, class, outcome)
        self.n_mut = 0
        self.fault_after_mut = 0
        self.states: set[str] = set()
        self.notes: list[str] = []
        self.copies: list[dict] = []    # C12 bookkeeping: {"h","src":[uids],"dst_h","dst":[uids],"src_recs":...}
        self.last_mut_was = False
        self.tidy = cfg.get("tidy", True)
        self.suspect: str | None = None
        self._gc_seen = 0

    # =========================================================================== infrastructure
    def open_initial(self):
        from geoh5py import Workspace

        names = ["A", "B"] if self.cfg.get("two_ws") else ["A"]
        for name in names:
            kw = {"version": self.version(name), "ga_version": "4.2", "contributors": ["sim"]}
            handle = Handle(name, self.sim.path(f"{name}.geoh5"))
            if name == "A" and self.cfg.get("start") == "bytesio":
                handle.ws = Workspace(**kw)
                handle.bytesio = True
            else:
                handle.ws = Workspace.create(handle.path, **kw)
            handle.model = TreeModel(ustr(handle.ws.root.uid))
            handle.model.add(snapshot.record(handle.ws.root))
            handle.sessions = 1
            self.h[name] = handle
        self.sim.record("open", names, self.cfg.get("start"))

    def version(self, h: str) -> float:
        """Format version of a workspace (the second one may be of another version than the first)."""
        if h == "B" and self.cfg.get("version_b") is not None:
            return self.cfg["version_b"]
        return self.cfg.get("version", 2.1)

    def ent(self, h: str, uid: str, fresh: bool = False):
        """The live entity for a model uid: through a held reference or a fresh lookup."""
        if not fresh and (h, uid) in self.slots:
            self.sim.probe("target_via_slot")
            return self.slots[(h, uid)]
        found = self.h[h].ws.get_entity(uid_obj(uid))[0]
        if found is None:
            raise Violation(self.prop if self.prop in ("C01", "C05", "C06") else "C01", "lookup_lost",
                            f"get_entity({uid}) is None for a live entity ({self.h[h].model.recs[uid]['kind']})",
                            {"kind": self.h[h].model.recs[uid]["kind"]})
        return found

    def target(self, rng: random.Random, h: str, want: str, pred=None):
        model = self.h[h].model
        cands = [u for u in model.alive(want) if pred is None or pred(model.recs[u])]
        if not cands:
            return None
        uid = rng.choice(cands)
        by, n = model.creator.get(uid, (None, 0))
        return {"by": by, "n": n, "fb": cands.index(uid), "want": want}

    def resolve(self, h: str, t: dict | None, pred=None) -> str | None:
        if t is None:
            return None
        model = self.h[h].model
        cands = [u for u in model.alive(t["want"]) if pred is None or pred(model.recs[u])]
        if t.get("by") is not None and t["by"] in self.created:
            mine = [u for (hh, u) in self.created[t["by"]] if hh == h and u in cands]
            if mine:
                return mine[t["n"] % len(mine)]
        if not cands:
            return None
        return cands[t["fb"] % len(cands)]

    def touch(self, h, *uids):
        self.last_target = (h, list(uids))

    def touch_pg(self, h, owner):
        self.last_pg_owner = (h, owner)

    def note_created(self, op, h, uids):
        self.created.setdefault(op["id"], []).extend((h, u) for u in uids)

    def keep_or_drop(self, op, h, entity):
        if op.get("keep") and entity is not None:
            self.slots[(h, ustr(entity.uid))] = entity

    def drop_all(self, h: str | None = None):
        for key in [k for k in self.slots if h is None or k[0] == h]:
            del self.slots[key]

    def held_groups(self) -> set:
        out = set()
        for (h, u) in self.slots:
            zombies = self.h[h].model.zombies
            z = zombies.get(u)
            # a held removed entity keeps its former ancestors alive through `_parent`
            while z is not None and (h, z.get("group")) not in out:
                out.add((h, z.get("group")))
                top = zombies.get(z.get("group"))
                z = zombies.get(top["rec"]["parent"]) if top else None
        return out

    def gc_events(self) -> int:
        return sum(v for k, v in self.sim.faults.items() if k.startswith("gc:"))

    def after_gc(self):
        held = self.held_groups()
        now = self.gc_events()
        for hname, handle in self.h.items():
            for u, z in handle.model.zombies.items():
                # only a collection that ran AFTER the removal was complete can have freed the entity: collections scheduled
                # inside the removing call itself (io / line granularity) ran while the call's frames still held it
                if (hname, z.get("group")) not in held and now > z.get("gc_at_removal", -1):
                    z["collected"] = True

    def check_gc(self):
        seen = sum(v for k, v in self.sim.faults.items() if k.startswith("gc:"))
        if seen != self._gc_seen:
            self._gc_seen = seen
            self.after_gc()
            if self.last_mut_was:
                self.fault_after_mut += 1

    # =========================================================================== generation
    def weights(self) -> dict:
        w = dict(BASE_WEIGHTS)
        w.update(PROFILES.get(self.prop, {}))
        for kind in self.cfg.get("disabled", []):
            w[kind] = 0
        return w

    def _has_grouped_data(self, h, t) -> bool:
        model = self.h[h].model
        uid = self.resolve(h, t)
        rec = model.recs.get(uid) if uid else None
        return bool(rec and rec["kind"] == "object" and not rec.get("concat") and any(pg["props"] for pg in rec.get("pgs", {}).values()))

    def gen_op(self, rng: random.Random, op_id: int) -> dict:
        pending = getattr(self, "pending", None)
        if pending:
            op = pending.pop(0)
            op["id"] = op_id
            return op
        w = self.weights()
        kinds = sorted(k for k, v in w.items() if v > 0)
        for _ in range(30):
            kind = rng.choices(kinds, [w[k] for k in kinds])[0]
            # bias: schedule/fault events right after a mutation that created in-flight state
            sub = rng.getrandbits(64)
            orng = random.Random(H(sub, "args"))
            h = "A" if "B" not in self.h or orng.random() < 0.7 else "B"
            args = getattr(self, "gen_" + kind)(orng, h)
            if args is None:
                continue
            op = {"id": op_id, "k": kind, "sub": sub, "h": h, "keep": orng.random() < self.cfg.get("keep_prob", 0.4)}
            op.update(args)
            if kind == "copy" and op.get("dh", h) != h and op.get("dh") in self.h and self.prop in ("C01", "C03") and orng.random() < 0.5:
                # pattern "edits in step": the copy in the other file and its source (same identifier, two files) receive the same
                # assignment one after the other -- what is written for one file says nothing about the other
                same_name = build.name(orng)
                self.sim.probe("edits_in_step_planned")
                self.pending = [
                    {"id": -1, "k": "rename", "sub": rng.getrandbits(64), "h": op["dh"], "keep": False, "t": {"by": op_id, "n": 0, "fb": 0, "want": "entity"}, "name": same_name},
                    {"id": -1, "k": "rename", "sub": rng.getrandbits(64), "h": h, "keep": False, "t": op["t"], "name": same_name},
                ]
            elif kind == "copy" and orng.random() < (0.35 if self.prop in ("C06", "C12", "C05") else 0.1):
                # pattern: copy -> remove the copy -> (drop, collect) -> copy the same source again
                dh = op["dh"] if op["dh"] in self.h else h
                rm_kind = "rm_ws" if orng.random() < 0.7 else "rm_parent"
                self.pending = [
                    {"id": -1, "k": rm_kind, "sub": rng.getrandbits(64), "h": dh, "keep": False, "t": {"by": op_id, "n": 0, "fb": 0, "want": "entity"}},
                    {"id": -1, "k": "drop", "sub": rng.getrandbits(64), "h": dh, "keep": False, "which": 0, "all": True},
                    {"id": -1, "k": "gc", "sub": rng.getrandbits(64), "h": dh, "keep": False},
                    {**op, "sub": rng.getrandbits(64)},
                ]
                if orng.random() < 0.4:
                    del self.pending[1:3]
            elif kind == "copy" and op.get("dh", h) != h and op.get("children") and not op.get("mask") and self.prop in ("C09", "C06", "C12", "C01", "C02") \
                    and self._has_grouped_data(h, op["t"]) and orng.random() < 0.9:
                # pattern "partial identifier retention": copy into the other workspace -> copy that copy next to itself -> move one of
                # the first copy's data sets to another fitting object there -> remove the first copy -> copy the source again:
                # the root's identifier is free again in the target, one child's identifier is still in use
                dh = op["dh"]
                self.sim.probe("partial_retention_planned")
                self.pending = [
                    {"id": -1, "k": "copy", "sub": rng.getrandbits(64), "h": dh, "keep": False, "t": {"by": op_id, "n": 0, "fb": 0, "want": "entity"},
                     "dh": dh, "d": None, "children": False, "clear": False},      # (without children: no name clash for the move)
                    {"id": -1, "k": "move_data", "sub": rng.getrandbits(64), "h": dh, "keep": False, "t": {"by": op_id, "n": 1, "fb": 0, "want": "data"},
                     "d": None, "pick": orng.randrange(1000), "only_created_by": op_id},
                    {"id": -1, "k": "rm_ws", "sub": rng.getrandbits(64), "h": dh, "keep": False, "t": {"by": op_id, "n": 0, "fb": 0, "want": "entity"}},
                    {**op, "sub": rng.getrandbits(64)},
                ]
            if kind == "mk_group" and op.get("cls") == "DrillholeGroup" and self.prop in ("C12", "C05", "C09", "C01") and orng.random() < 0.6:
                # a drillhole group with files / comments of its own (kept outside the concatenated store)
                self.pending = []
                for extra in (["add_comment"], ["add_file"], ["add_comment", "add_file"])[orng.randrange(3)]:
                    args2 = getattr(self, "gen_" + extra)(orng, h) or {}
                    self.pending.append({"id": -1, "k": extra, "sub": rng.getrandbits(64), "h": h, "keep": False, **args2,
                                         "t": {"by": op_id, "n": 0, "fb": 0, "want": "holder"}})
                self.pending = [p for p in self.pending if len(p) > 6]
            if kind == "type_edit" and op.get("what") == "value_map" and self.prop == "C09" and orng.random() < 0.6:
                # a second data set on the edited type: the data is copied next to itself (copies share the type)
                self.pending = [{"id": -1, "k": "copy", "sub": rng.getrandbits(64), "h": h, "keep": False, "t": op["t"], "dh": h, "d": None, "children": True, "clear": False}]
            if kind == "add_data" and op.get("pg") and op["assoc"] != "OBJECT" and orng.random() < 0.6:
                # burst: more data of the same association into the same property group of the same object
                self.pending = []
                for _ in range(orng.randint(1, 2)):
                    clone = dict(op)
                    clone.update(sub=rng.getrandbits(64), name=build.name(orng), vseed=orng.getrandbits(32),
                                 dkind=orng.choice(build.DATA_KINDS[:4] + ["textarr"]), len="exact", t={**op["t"], "by": None} if op["t"]["by"] is None else op["t"])
                    self.pending.append(clone)
            return op
        return {"id": op_id, "k": "gc", "sub": rng.getrandbits(64), "h": "A", "keep": False}

    # =========================================================================== execution
    def apply(self, op: dict) -> str:
        oracles = self.oracles
        sim = self.sim
        kind = op["k"]
        for orc in oracles:
            orc.before(self, op)
        self.last_target = None
        self.last_pg_owner = None
        self.last_type = None
        sim.begin_op(op["sub"])
        try:
            outcome = getattr(self, "do_" + kind)(op)
        finally:
            sim.end_op()
        warns = sim.drain_warnings()
        self.check_gc()
        if kind in MUTATING and outcome == "ok":
            self.n_mut += 1
            self.last_mut_was = True
        elif kind in ("gc", "close_reopen", "reopen_same", "save_as", "drop", "list"):
            if self.last_mut_was and kind != "gc":
                self.fault_after_mut += 1
            sim.fault("ev:" + kind)
            self.last_mut_was = False
        self.trace.append(f"{kind}:{op.get('cls', '')}:{outcome.split(':')[0]}")
        state = rawgeoh5.sha([[u, r["name"], r["parent"], r["flags"], r.get("values"), sorted(r.get("pgs", {}))]
                              for hh in sorted(self.h) for u, r in self.h[hh].model.recs.items()])
        sim.record("op", op["id"], kind, op.get("h"), outcome, sorted(set(warns)), state)
        for orc in oracles:
            orc.after(self, op, outcome)
        # op-granularity GC actor
        if sim.gc_mode == "op" and random.Random(H(op["sub"], "gcop")).random() < sim.gc_density:
            sim.collect("op")
            self.check_gc()
            for orc in oracles:
                orc.after_event(self, "gc")
        return outcome

    def call(self, fn, expect: str = "ok", what: str = ""):
        """Run a library call; classify the outcome.  expect: ok | refuse | either."""
        if expect == "ok" and getattr(self, "call_expect_either", False):
            expect = "either"    # read-only machine: any call may be refused
        try:
            result = fn()
        except Violation:
            raise
        except HarnessError:
            raise
        except Exception as err:  # pylint: disable=broad-except
            name = type(err).__name__
            text = str(err)[:160]
            del err
            if expect == "ok":
                self.suspect = f"{what}: unexpected {name}: {text}"
                return None, "raised:" + name
            return None, "refused:" + name
        if expect == "refuse":
            return result, "accepted"
        return result, "ok"

    # ---- creation ---------------------------------------------------------------------------
    def gen_mk_group(self, rng, h):
        cls = rng.choice(build.GROUP_CLASSES)
        if self.prop == "C12" and rng.random() < 0.2:
            cls = "DrillholeGroup"
        if self.version(h) < 2.0 and cls == "DrillholeGroup" and rng.random() < 0.5:
            cls = "ContainerGroup"
        return {"cls": cls, "name": build.name(rng), "t": self.target(rng, h, "container")}

    def do_mk_group(self, op):
        from geoh5py import groups

        h = op["h"]
        parent_uid = self.resolve(h, op["t"])
        if parent_uid is None:
            return "skipped"
        parent = self.ent(h, parent_uid)
        cls = getattr(groups, op["cls"])
        kw = {"name": op["name"], "parent": parent}
        if op["cls"] == "UIJsonGroup" and op.get("options") is not None:
            kw["options"] = op["options"]
        ent, outcome = self.call(lambda: cls.create(self.h[h].ws, **kw), what="mk_group " + op["cls"])
        del parent
        if outcome != "ok" or ent is None:
            return outcome if outcome != "ok" else "raised:None"
        rec = snapshot.record(ent)
        self.expect_fields(rec, {"name": op["name"], "parent": parent_uid, "kind": "group"}, "create")
        if op["cls"] == "DrillholeGroup" and self.version(h) >= 2.0:
            rec["concat_group"] = True
        self.h[h].model.add(rec, op["id"], 0)
        self.note_created(op, h, [rec["uid"]])
        self.keep_or_drop(op, h, ent)
        return "ok"

    def gen_mk_object(self, rng, h):
        model = self.h[h].model
        cls = rng.choices(build.OBJECT_CLASSES, build.OBJECT_WEIGHTS)[0]
        if cls == "Drillhole" and rng.random() < 0.6:
            t = self.target(rng, h, "groupish", lambda r: r.get("concat_group"))
            if t is None:
                t = self.target(rng, h, "container")
        else:
            t = self.target(rng, h, "container")
        if t is None:
            return None
        return {"cls": cls, "t": t, "args": build.gen_object_args(rng, cls)}

    def do_mk_object(self, op):
        from geoh5py import objects

        h = op["h"]
        model = self.h[h].model
        if op["cls"] == "Drillhole" and op["t"]["want"] == "groupish":
            parent_uid = self.resolve(h, op["t"], lambda r: r.get("concat_group"))
        else:
            parent_uid = self.resolve(h, op["t"])
        if parent_uid is None:
            return "skipped"
        if model.recs[parent_uid].get("concat_group") and op["cls"] != "Drillhole":
            return "skipped"
        parent = self.ent(h, parent_uid)
        cls = getattr(objects, op["cls"])
        kw = build.object_kwargs(op["args"])
        ent, outcome = self.call(lambda: cls.create(self.h[h].ws, parent=parent, **kw), what="mk_object " + op["cls"])
        del parent
        if outcome != "ok" or ent is None:
            return outcome if outcome != "ok" else "raised:None"
        rec = snapshot.record(ent)
        self.expect_fields(rec, {"name": op["args"]["name"], "parent": parent_uid, "kind": "object"}, "create")
        for key in ("vertices", "cells"):
            if key in op["args"]:
                if not compare.same(compare.flat(rec["arrays"].get(key)), compare.flat(op["args"][key])):
                    raise Violation("C01", "create_mismatch", f"{op['cls']}.{key} differs from the argument", {"cls": op["cls"], "field": key})
        if model.recs[parent_uid].get("concat_group"):
            rec["concat"] = True
        model.add(rec, op["id"], 0)
        self.note_created(op, h, [rec["uid"]])
        self.keep_or_drop(op, h, ent)
        return "ok"

    def expect_fields(self, rec, want: dict, where: str):
        for key, val in want.items():
            if rec.get(key) != val:
                raise Violation("C01", "live_mismatch", f"{where}: {rec.get('uid')} {key}={rec.get(key)!r}, expected {val!r}",
                                {"field": key, "where": where})

    # ---- data -------------------------------------------------------------------------------
    def _n_for(self, rec: dict, assoc: str) -> int | None:
        arrays = rec.get("arrays", {})
        if assoc == "VERTEX":
            return len(arrays["vertices"]) if "vertices" in arrays else None
        if assoc == "CELL":
            if "cells" in arrays:
                return len(arrays["cells"])
            if "octree_cells" in arrays:
                return len(arrays["octree_cells"])
            if "layers" in arrays:
                return len(arrays["layers"])
            attrs = rec.get("attrs", {})
            if "U Count" in attrs:
                return attrs["U Count"] * attrs["V Count"]
            if "u_cell_delimiters" in arrays:
                return (len(arrays["u_cell_delimiters"]) - 1) * (len(arrays["v_cell_delimiters"]) - 1) * (len(arrays["z_cell_delimiters"]) - 1)
            return None
        return 1

    def gen_add_data(self, rng, h):
        t = self.target(rng, h, "object", lambda r: not r.get("concat") and r["cls"] != "Drillhole")
        if t is None:
            return None
        # prefer an association the target supports (the op still carries a fallback for replays)
        model = self.h[h].model
        cands = [u for u in model.alive("object") if not model.recs[u].get("concat") and model.recs[u]["cls"] != "Drillhole"]
        rec = model.recs[cands[t["fb"] % len(cands)]]
        options = [a for a in ("VERTEX", "CELL") if self._n_for(rec, a)] + ["OBJECT"]
        assoc = rng.choice(options[:-1]) if len(options) > 1 and rng.random() < 0.8 else "OBJECT"
        return {"t": t, "dkind": rng.choice(build.DATA_KINDS), "assoc": assoc,
                "len": rng.choices(["exact", "short", "long"], [8, 2, 1])[0], "name": build.name(rng),
                "pg": (rng.choice(["pgA", "pgB", "pgC"]) if rng.random() < 0.5 else None), "vseed": rng.getrandbits(32),
                # created with save_on_creation=False: written by the close (only where the per-event file oracle of C09 is not running)
                "deferred": self.prop in ("C01", "C02", "C11") and rng.random() < 0.12}

    def do_add_data(self, op):
        h = op["h"]
        model = self.h[h].model
        obj_uid = self.resolve(h, op["t"], lambda r: not r.get("concat") and r["cls"] != "Drillhole")
        if obj_uid is None:
            return "skipped"
        orec = model.recs[obj_uid]
        assoc, dkind = op["assoc"], op["dkind"]
        n = self._n_for(orec, assoc)
        if n is None:
            assoc, n = "OBJECT", 1
        if dkind == "text":
            assoc, n = "OBJECT", 1
        if n == 0 and dkind == "textarr":
            dkind = "float"   # zero-length text arrays are an input-domain matter (C08), not generated here
        vr = random.Random(op["vseed"])
        length = n
        if assoc != "OBJECT" and dkind != "text":
            if op["len"] == "short" and n > 1 and dkind != "referenced":
                length = vr.randrange(1, n)
            elif op["len"] == "long":
                length = n + vr.randint(1, 3)
        values = build.gen_values(vr, dkind, length)
        name = op["name"]
        if name in [model.recs[c]["name"] for c in orec["children"]]:
            name = name + "_" + str(op["id"])
        pg_name = op["pg"] if assoc in ("VERTEX", "CELL") else None
        expect = "ok"
        if length > n and (dkind not in ("textarr",) or assoc in ("VERTEX", "CELL")):
            expect = "refuse"        # (text on vertices / cells follows the same length rule as numbers since repair dd066da)
        if pg_name is not None:
            # a property group holds one association; the library does not refuse mixing through
            # add_data(property_group=<existing name>), so the generator avoids it (not judged)
            for pg in orec["pgs"].values():
                if pg["name"] == pg_name and pg["assoc"] != assoc:
                    pg_name = None
        self.touch_pg(h, obj_uid)
        obj = self.ent(h, obj_uid)
        spec = build.data_spec(dkind, values, assoc)
        if op.get("deferred") and dkind == "float" and expect == "ok" and length == n and assoc in ("VERTEX", "CELL") and not self.cfg.get("ro"):
            from geoh5py.data import Data

            ws = self.h[h].ws
            pg_name = None
            ent, outcome = self.call(lambda: ws.create_entity(Data, save_on_creation=False,
                                                              entity={"parent": obj, "association": assoc, "name": name, "values": np.asarray(spec["values"], dtype=float)},
                                                              entity_type={"primitive_type": "FLOAT"}), expect, what="create_entity(save_on_creation=False)")
            self.sim.probe("deferred_creation")
        else:
            ent, outcome = self.call(lambda: obj.add_data({name: spec}, property_group=pg_name), expect, what=f"add_data {dkind}")
        del obj
        if expect == "refuse":
            if outcome == "accepted":
                raise Violation("C07", "long_values_accepted", f"add_data accepted {length} values for {n} elements", {"dkind": dkind})
            obj = self.ent(h, obj_uid)
            kids = sorted(ustr(c.uid) for c in snapshot.children_of(obj))
            del obj
            if kids != sorted(orec["children"]):
                raise Violation("C07", "refusal_side_effect", f"refused add_data ({length} values for {n} elements) left a half-built "
                                f"data child on the object", {"op": "add_data", "dkind": dkind})
            return outcome
        if outcome != "ok":
            return outcome
        rec = snapshot.record(ent)
        want_vals = build.pad(dkind, values, n) if (dkind not in ("textarr", "text") or (dkind == "textarr" and assoc in ("VERTEX", "CELL"))) else values
        self.expect_fields(rec, {"name": name, "parent": obj_uid, "kind": "data"}, "add_data")
        if not compare.same(rec["values"], want_vals):
            raise Violation("C01", "live_mismatch", f"add_data values {compare._short(rec['values'])} expected {compare._short(want_vals)}",
                            {"field": "values", "where": "add_data", "dkind": dkind})
        model.add(rec, op["id"], 0)
        self.note_created(op, h, [rec["uid"]])
        if pg_name is not None:
            self._model_pg_add(h, obj_uid, pg_name, [rec["uid"]], assoc, op)
        self.keep_or_drop(op, h, ent)
        return "ok"

    def _model_pg_add(self, h, obj_uid, pg_name, data_uids, assoc, op):
        """Update the model for add_data_to_group(name) and adopt the new group's uid from LIVE."""
        model = self.h[h].model
        orec = model.recs[obj_uid]
        for pg_uid, pg in orec["pgs"].items():
            if pg["name"] == pg_name:
                for d in data_uids:
                    if d not in pg["props"]:
                        pg["props"].append(d)
                return pg_uid
        obj = self.ent(h, obj_uid)
        live = snapshot.record(obj, with_arrays=False)["pgs"]
        del obj
        new = [u for u, pg in live.items() if pg["name"] == pg_name and u not in orec["pgs"]]
        if len(new) != 1:
            raise Violation("C01", "live_mismatch", f"property group {pg_name!r} not created exactly once: {new}", {"where": "pg_create"})
        if new[0] in model.all_ids() or new[0] in model.removed:
            raise Violation("C06", "uid_reused", f"new property group reuses identifier {new[0]}", {"what": "pg"})
        orec["pgs"][new[0]] = {"name": pg_name, "assoc": assoc, "type": live[new[0]]["type"], "props": list(data_uids)}
        model.pg_creator[new[0]] = (op["id"], 0)
        return new[0]

    def gen_add_comment(self, rng, h):
        t = None
        if rng.random() < 0.5:
            t = self.target(rng, h, "holder", lambda r: r.get("concat_group"))      # ordinary data child of a concatenator (drillhole group)
        t = t or self.target(rng, h, "holder", lambda r: not r.get("concat"))
        if t is None:
            return None
        return {"t": t, "text": rng.choice(build.TEXTS), "author": rng.choice(["me", "ü", None]), "dt": rng.choice([0, 1, 3600, -5])}

    def do_add_comment(self, op):
        h = op["h"]
        model = self.h[h].model
        uid = self.resolve(h, op["t"], lambda r: not r.get("concat"))
        if uid is None:
            return "skipped"
        if model.recs[uid].get("concat_group"):
            self.sim.probe("data_child_of_drillhole_group")
        self.sim.clock.advance(op["dt"])
        self.touch(h, uid, *[c for c in model.recs[uid]["children"] if model.recs[c]["cls"] == "CommentsData"])
        ent = self.ent(h, uid)
        _, outcome = self.call(lambda: ent.add_comment(op["text"], op["author"]), what="add_comment")
        if outcome != "ok":
            return outcome
        comments = ent.comments
        rec = snapshot.record(comments)
        del ent, comments
        last = rec["values"][-1] if rec["values"] else None
        author = op["author"] if op["author"] is not None else "sim"
        if not last or last.get("Text") != op["text"] or last.get("Author") != author:
            raise Violation("C01", "live_mismatch", f"comment not appended: {last}", {"where": "add_comment"})
        if rec["uid"] in model.recs:
            old = model.recs[rec["uid"]]["values"] or []
            if rec["values"][:-1] != old:
                raise Violation("C01", "live_mismatch", "earlier comments changed", {"where": "add_comment"})
            model.recs[rec["uid"]]["values"] = rec["values"]
        else:
            model.add(rec, op["id"], 0)
            self.note_created(op, h, [rec["uid"]])
        return "ok"

    def gen_add_file(self, rng, h):
        t = (self.target(rng, h, "holder", lambda r: r.get("concat_group")) if rng.random() < 0.5 else None) \
            or self.target(rng, h, "holder", lambda r: not r.get("concat"))
        if t is None:
            return None
        return {"t": t, "blob": bytes(rng.randrange(256) for _ in range(rng.choice([1, 7, 40]))).hex(), "fname": rng.choice(["f.dat", "ü.bin", "a b.txt"])}

    def do_add_file(self, op):
        h = op["h"]
        model = self.h[h].model
        uid = self.resolve(h, op["t"], lambda r: not r.get("concat"))
        if uid is None:
            return "skipped"
        if model.recs[uid].get("concat_group"):
            self.sim.probe("data_child_of_drillhole_group")
        fname = op["fname"]
        if fname in [model.recs[c]["name"] for c in model.recs[uid]["children"]]:
            fname = f"{op['id']}_{fname}"
        ent = self.ent(h, uid)
        data, outcome = self.call(lambda: ent.add_file(bytes.fromhex(op["blob"]), name=fname), what="add_file")
        del ent
        if outcome != "ok":
            return outcome
        rec = snapshot.record(data)
        self.expect_fields(rec, {"name": fname, "parent": uid}, "add_file")
        if rec["values"] != {"file_name": fname, "blob": op["blob"]}:
            raise Violation("C01", "live_mismatch", f"file data {rec['values']}", {"where": "add_file"})
        model.add(rec, op["id"], 0)
        self.note_created(op, h, [rec["uid"]])
        self.keep_or_drop(op, h, data)
        return "ok"

    # ---- images: a GeoImage keeps its picture as a file child whose type it names itself
    def gen_geo_image(self, rng, h):
        t = self.target(rng, h, "object", lambda r: r["cls"] == "GeoImage")
        args = {"shape": [rng.randrange(2, 6), rng.randrange(2, 6)], "rgb": rng.random() < 0.5, "iseed": rng.getrandbits(32)}
        if t is None or rng.random() < 0.3:
            c = self.target(rng, h, "container", lambda r: not r.get("concat_group"))
            if c is None:
                return None
            # (always with its picture: a GeoImage without one has no corners either and cannot be copied -- DESIGN 12.6)
            return {**args, "new": True, "t": c, "name": build.name(rng), "with_image": True}
        return {**args, "new": False, "t": t}

    def do_geo_image(self, op):
        from geoh5py.objects import GeoImage

        h = op["h"]
        model = self.h[h].model
        ws = self.h[h].ws
        ir = random.Random(op["iseed"])
        shape = tuple(op["shape"]) + ((3,) if op["rgb"] else ())
        arr = np.array([ir.randrange(256) for _ in range(int(np.prod(shape)))], dtype="uint8").reshape(shape)
        if op["new"]:
            parent_uid = self.resolve(h, op["t"], lambda r: not r.get("concat_group"))
            if parent_uid is None:
                return "skipped"
            parent = self.ent(h, parent_uid)
            kw = {"name": op["name"], "parent": parent}
            if op["with_image"]:
                kw["image"] = arr
            ent, outcome = self.call(lambda: GeoImage.create(ws, **kw), what="mk GeoImage")
            del parent
            if outcome != "ok" or ent is None:
                return outcome if outcome != "ok" else "raised:None"
            recs = snapshot.subtree(ws, ent)
            root = ustr(ent.uid)
            self.expect_fields(recs[root], {"name": op["name"], "parent": parent_uid, "kind": "object"}, "create")
            order = sorted(recs, key=lambda u: (0 if u == root else 1, u))
            for i, u in enumerate(order):
                model.add(recs[u], op["id"], i)
            self.note_created(op, h, order)
            self.keep_or_drop(op, h, ent)
            self.sim.probe("geo_image_created")
            return "ok"
        uid = self.resolve(h, op["t"], lambda r: r["cls"] == "GeoImage")
        if uid is None:
            return "skipped"
        old = [c for c in model.recs[uid]["children"] if model.recs[c]["name"] == "GeoImageMesh_Image"]
        if any(not model.recs[c]["flags"]["allow_delete"] for c in old):
            return "skipped"
        self.touch(h, uid)
        ent = self.ent(h, uid)
        _, outcome = self.call(lambda: setattr(ent, "image", arr), what="image =")
        if outcome != "ok":
            del ent
            return outcome
        for c in old:
            self._model_remove(h, c, "ws")
        recs = snapshot.subtree(ws, ent)
        new = sorted(u for u in recs if u not in model.recs)
        for i, u in enumerate(new):
            model.add(recs[u], op["id"], i)
        self.note_created(op, h, new)
        # the image decides the object's own geometry the first time (corner vertices); everything else stays
        kept = model.recs[uid]
        for field in ("arrays", "attrs"):
            kept[field] = recs[uid][field]
        self.keep_or_drop(op, h, ent)
        del ent
        self.sim.probe("geo_image_replaced" if old else "geo_image_set")
        return "ok"

    @staticmethod
    def _dkind(rec) -> str | None:
        prim = rec.get("primitive")
        if rec["cls"].endswith("CommentsData") or prim == "FILENAME":
            return None
        return {"FLOAT": "float", "INTEGER": "integer", "BOOLEAN": "boolean", "REFERENCED": "referenced", "TEXT": "textarr"}.get(prim)

    def gen_set_values(self, rng, h):
        t = self.target(rng, h, "data", lambda r: self._dkind(r) and not r.get("concat"))
        if t is None:
            return None
        return {"t": t, "len": rng.choices(["exact", "short", "long"], [8, 2, 1])[0], "vseed": rng.getrandbits(32)}

    def do_set_values(self, op):
        h = op["h"]
        model = self.h[h].model
        uid = self.resolve(h, op["t"], lambda r: self._dkind(r) and not r.get("concat"))
        if uid is None:
            return "skipped"
        rec = model.recs[uid]
        dkind = self._dkind(rec)
        assoc = rec["attrs"].get("Association", "OBJECT")
        parent = model.recs[rec["parent"]]
        n = self._n_for(parent, assoc) if parent["kind"] == "object" else 1
        if n is None:
            n = 1
        vr = random.Random(op["vseed"])
        single = dkind == "textarr" and len(rec["values"] or []) == 1 and assoc == "OBJECT"
        length = n
        if assoc != "OBJECT" and op["len"] == "short" and n > 1 and dkind != "referenced":
            length = vr.randrange(1, n)
        elif assoc != "OBJECT" and op["len"] == "long":
            length = n + vr.randint(1, 2)
        values = build.gen_values(vr, "text" if single else dkind, 1 if single else length)
        expect = "refuse" if (length > n and (dkind != "textarr" or assoc in ("VERTEX", "CELL"))) else "ok"
        self.touch(h, uid)
        ent = self.ent(h, uid)
        arr = build.np_values("text" if single else dkind, values)

        if expect == "ok" and length == n and isinstance(arr, np.ndarray) and arr.dtype.kind in "fiub" and vr.random() < 0.3:
            # read-modify-assign idiom: the array handed out by the getter is edited in place and assigned back
            try:
                cur = ent.values
            except Exception:  # pylint: disable=broad-except
                cur = None
            if isinstance(cur, np.ndarray) and cur.shape == arr.shape and cur.dtype.kind == arr.dtype.kind and cur.flags.writeable and not np.array_equal(cur, arr, equal_nan=cur.dtype.kind == "f"):
                cur[...] = arr
                arr = cur
                self.sim.probe("values_edited_in_place")
            del cur

        def assign():
            ent.values = arr

        _, outcome = self.call(assign, expect, what=f"set_values {dkind}")
        if expect == "refuse":
            after = snapshot.values_of(ent)
            del ent
            if outcome == "accepted":
                raise Violation("C07", "long_values_accepted", f"values setter accepted {length} values for {n} elements", {"dkind": dkind})
            if not compare.same(after, rec["values"]):
                raise Violation("C07", "refused_but_changed", "refused assignment changed the live values", {"dkind": dkind})
            return outcome
        if outcome != "ok":
            del ent
            return outcome
        live = snapshot.values_of(ent)
        del ent
        want = build.pad(dkind, values, n) if (dkind != "textarr" or assoc in ("VERTEX", "CELL")) else values
        if not compare.same(live, want):
            raise Violation("C01", "live_mismatch", f"values after assignment {compare._short(live)} expected {compare._short(want)}",
                            {"field": "values", "where": "set_values", "dkind": dkind})
        rec["values"] = want
        return "ok"

    # ---- attribute edits ---------------------------------------------------------------------
    def gen_rename(self, rng, h):
        t = self.target(rng, h, "entity", lambda r: not r.get("concat") and r["cls"] != "CommentsData")
        return None if t is None else {"t": t, "name": build.name(rng)}

    def do_rename(self, op):
        h = op["h"]
        model = self.h[h].model
        uid = self.resolve(h, op["t"], lambda r: not r.get("concat") and r["cls"] != "CommentsData")
        if uid is None:
            return "skipped"
        rec = model.recs[uid]
        name = op["name"]
        sibs = [model.recs[c]["name"] for c in model.recs[rec["parent"]]["children"] if c != uid]
        if rec["kind"] == "data" and name in sibs:
            name = f"{name}_{op['id']}"
        self.touch(h, uid)
        ent = self.ent(h, uid)

        def assign():
            ent.name = name

        _, outcome = self.call(assign, what="rename")
        if outcome != "ok":
            return outcome
        if ent.name != name:
            raise Violation("C01", "live_mismatch", f"name after rename {ent.name!r}", {"field": "name", "where": "rename"})
        del ent
        rec["name"] = name
        return "ok"

    def gen_set_flag(self, rng, h):
        t = self.target(rng, h, "entity", lambda r: not r.get("concat"))
        if t is None:
            return None
        if rng.random() < 0.3:
            return {"t": t, "flag": "allow_delete", "val": rng.random() < 0.3}      # protected entities (and their ancestors' removal)
        return {"t": t, "flag": rng.choice(snapshot.FLAGS), "val": rng.random() < 0.5}

    def do_set_flag(self, op):
        h = op["h"]
        model = self.h[h].model
        uid = self.resolve(h, op["t"], lambda r: not r.get("concat"))
        if uid is None:
            return "skipped"
        self.touch(h, uid)
        ent = self.ent(h, uid)

        def assign():
            setattr(ent, op["flag"], op["val"])

        _, outcome = self.call(assign, what="set_flag")
        if outcome != "ok":
            return outcome
        if bool(getattr(ent, op["flag"])) != op["val"]:
            raise Violation("C01", "live_mismatch", f"flag {op['flag']} not set", {"field": op["flag"], "where": "set_flag"})
        del ent
        model.recs[uid]["flags"][op["flag"]] = int(op["val"])
        return "ok"

    def gen_set_meta(self, rng, h):
        t = self.target(rng, h, "holder", lambda r: not r.get("concat"))
        if t is None:
            return None
        val = rng.choice([None, {"k": rng.randrange(9)}, {"text": rng.choice(build.TEXTS)}, {"nested": {"a": 1.5, "b": [1, 2]}}, {"k": "v", "z": 0}])
        return {"t": t, "val": val}

    def do_set_meta(self, op):
        h = op["h"]
        model = self.h[h].model
        uid = self.resolve(h, op["t"], lambda r: not r.get("concat"))
        if uid is None:
            return "skipped"
        rec = model.recs[uid]
        self.touch(h, uid)
        ent = self.ent(h, uid)
        val = None if op["val"] is None else _deep(op["val"])

        def assign():
            ent.metadata = val

        _, outcome = self.call(assign, what="set_meta")
        if outcome != "ok":
            return outcome
        if op["val"] is None:
            want = None
        else:
            want = dict(rec["metadata"] or {})
            want.update(op["val"])
        live = snapshot.canon(ent.metadata)
        del ent
        if not compare.same(live or None, want or None):
            raise Violation("C01", "live_mismatch", f"metadata {live} expected {want}", {"field": "metadata", "where": "set_meta"})
        rec["metadata"] = want
        return "ok"

    # ---- structure ---------------------------------------------------------------------------
    def _movable(self, model, uid, dest) -> bool:
        return dest != uid and dest not in model.descendants(uid) and model.recs[uid]["parent"] != dest

    def gen_move(self, rng, h):
        t = self.target(rng, h, "holder", lambda r: not r.get("concat"))
        d = self.target(rng, h, "container")
        if t is None or d is None:
            return None
        return {"t": t, "d": d}

    def do_move(self, op):
        h = op["h"]
        model = self.h[h].model
        uid = self.resolve(h, op["t"], lambda r: not r.get("concat"))
        dest = self.resolve(h, op["d"])
        if uid is None or dest is None or not self._movable(model, uid, dest):
            return "skipped"
        self.touch(h, uid)
        ent = self.ent(h, uid)
        parent = self.ent(h, dest)

        def assign():
            ent.parent = parent

        _, outcome = self.call(assign, what="move")
        if outcome != "ok":
            return outcome
        if ustr(ent.parent.uid) != dest:
            raise Violation("C01", "live_mismatch", "parent not changed by move", {"field": "parent", "where": "move"})
        del ent, parent
        model.move(uid, dest)
        self.sim.probe("move")
        return "ok"

    def gen_copy(self, rng, h):
        t = None
        if self.prop == "C12" and rng.random() < 0.2:
            # a data set copied with a mask onto its own parent (same length): kept values copied, the rest no-data, source untouched
            t = self.target(rng, h, "data", lambda r: self._dkind(r) == "float" and not r.get("concat") and len(r.get("values") or []) >= 2
                            and r["attrs"].get("Association") in ("VERTEX", "CELL"))
            if t is not None:
                return {"t": t, "dh": h, "d": None, "children": True, "clear": False, "mask": rng.getrandbits(24) | (1 << 24)}
        if self.prop in ("C09", "C06", "C12") and self.copies and rng.random() < 0.12:
            # a data set copied alone to a copy of its parent (possibly in the other workspace): it keeps its identifier where free,
            # so that a later copy of the whole parent retains only part of the identifiers
            model = self.h[h].model
            pairs = [(c["src"], c["dh"], c["dst"]) for c in self.copies if c["h"] == h and c["src"] in model.recs and c["dst"] in self.h[c["dh"]].model.recs
                     and model.recs[c["src"]]["kind"] == "object"]
            if pairs:
                src, dh2, dst = pairs[rng.randrange(len(pairs))]
                t = self.target(rng, h, "data", lambda r: r["parent"] == src and not r.get("concat"))
                d = self.target(rng, dh2, "container", lambda r: r["uid"] == dst) or self.target(rng, dh2, "entity", lambda r: r["uid"] == dst)
                if t is not None and d is not None:
                    return {"t": t, "dh": dh2, "d": d, "children": True, "clear": False}
            t = None
        if rng.random() < (0.6 if self.prop == "C09" else 0.35):
            t = self.target(rng, h, "object", lambda r: any(pg["props"] for pg in (r.get("pgs") or {}).values())) or self.target(rng, h, "object", lambda r: bool(r.get("pgs")))
        if self.prop == "C12" and rng.random() < 0.3:
            # a drillhole group with files / comments of its own (with or without holes), preferably into the other workspace
            model = self.h[h].model
            t2 = self.target(rng, h, "groupish", lambda r: r.get("concat_group") and any(model.recs[c]["kind"] == "data" for c in r["children"]))
            if t2 is not None:
                dh = ("B" if h == "A" else "A") if "B" in self.h and rng.random() < 0.8 else h
                d = self.target(rng, dh, "container", lambda r: not r.get("concat_group"))
                if d is not None:
                    self.sim.probe("copy_drillhole_group_with_own_data")
                    return {"t": t2, "dh": dh, "d": d, "children": rng.random() < 0.9, "clear": rng.random() < 0.3}
        if t is None and rng.random() < 0.25 and self.copies:
            srcs = {c["src"] for c in self.copies if c["h"] == h} | {c["dst"] for c in self.copies if c["dh"] == h}
            t = self.target(rng, h, "entity", lambda r: r["uid"] in srcs)
        if t is None:
            t = self.target(rng, h, "entity")
        if t is None:
            return None
        dh = h
        if "B" in self.h and rng.random() < ((0.85 if self.prop == "C09" else 0.6) if self._has_grouped_data(h, t) else 0.35):
            dh = "B" if h == "A" else "A"
        mode = rng.choice(["same", "other"])
        d = self.target(rng, dh, "container") if (mode == "other" or dh != h) else None
        return {"t": t, "dh": dh, "d": d, "children": rng.random() < 0.75, "clear": rng.random() < 0.3}

    def do_copy(self, op):
        h, dh = op["h"], op["dh"]
        if dh not in self.h:
            dh = h
        model, dmodel = self.h[h].model, self.h[dh].model
        uid = self.resolve(h, op["t"])
        if uid is None:
            return "skipped"
        rec = model.recs[uid]
        if op["d"] is None and dh == h:
            dest = rec["parent"]
        else:
            dest = self.resolve(dh, op["d"])
        if dest is None:
            return "skipped"
        drec = dmodel.recs[dest]
        # keep the copy well-formed: data goes under an object/group that can take it
        if rec["kind"] == "data":
            if op["d"] is not None or dh != h:
                # data copies stay under the same parent (lengths match) -- or go to a copy of that parent
                twins = {c["dst"] for c in self.copies if c["src"] == rec["parent"] and c["h"] == h and c["dh"] == dh} \
                    | {c["src"] for c in self.copies if c["dst"] == rec["parent"] and c["dh"] == h and c["h"] == dh}
                if dest not in twins or rec.get("concat"):
                    return "skipped"
                self.sim.probe("copy_data_to_twin_parent")
        if rec.get("concat"):
            if not drec.get("concat_group") and rec["kind"] == "object":
                return "skipped"
            if rec["kind"] == "data":
                return "skipped"
        elif drec.get("concat_group"):
            return "skipped"
        if dh == h and dest in model.subtree(uid):
            return "skipped"
        if dh != h and self.version(h) != self.version(dh) and any(
                model.recs[u]["cls"].endswith("DrillholeGroup") and any(model.recs[c]["kind"] != "data" and model.recs[c]["cls"] not in ("Drillhole", "ConcatenatedDrillhole") for c in model.recs[u]["children"])
                for u in model.subtree(uid)):
            return "skipped"    # (a version-1.0 drillhole group that holds other things than holes has no counterpart in the concatenated store)
        ent = self.ent(h, uid)
        parent = self.ent(dh, dest)
        before_src = {u: dict(model.recs[u]) for u in model.subtree(uid)}
        in_use = dmodel.all_ids() | {dmodel.root}
        kw = {"parent": parent, "clear_cache": op["clear"]}
        if rec["kind"] != "data":
            kw["copy_children"] = op["children"]
        masked_values = None
        if op.get("mask") and rec["kind"] == "data" and self._dkind(rec) == "float" and len(rec.get("values") or []) >= 2:
            n = len(rec["values"])
            mask = [bool((op["mask"] >> i) & 1) for i in range(n)]
            if all(mask):
                mask[0] = False
            kw["mask"] = np.array(mask)
            kw.pop("clear_cache")
            masked_values = [v if m else "nan" for v, m in zip(rec["values"], mask)]
            self.sim.probe("copy_data_masked")
        new, outcome = self.call(lambda: ent.copy(**kw), what=f"copy {rec['cls']}")
        del ent, parent
        if outcome.startswith("raised:") and self.prop == "C12" and rec.get("concat_group") and dh != h:
            # a drillhole group that cannot be copied into the other workspace at all is a copy that differs from its source
            again = any(c["src"] == uid and c["h"] == h and c["dh"] == dh for c in self.copies) or uid in dmodel.all_ids() \
                or any(u in dmodel.all_ids() or u in dmodel.zombies for u in model.subtree(uid))
            self.suspect = None
            raise Violation("C12", "copy_raises", f"copying a drillhole group into the other workspace (version {self.version(dh)}) raised {outcome.split(':', 1)[1]}",
                            {"cls": "DrillholeGroup", "exc": outcome.split(":", 1)[1], "again": bool(again), **({"to_version": self.version(dh)} if self.version(dh) < 2.0 else {})})
        if outcome != "ok" or new is None:
            return outcome if outcome != "ok" else "raised:None"
        new_recs = snapshot.subtree(self.h[dh].ws, new)
        root_new = ustr(new.uid)
        info = {"h": h, "src": uid, "dh": dh, "dst": root_new, "children": op["children"], "new": new_recs, "masked_values": masked_values,
                "in_use": in_use, "src_ids": {u for u in model.subtree(uid)} | {p for u in model.subtree(uid) for p in model.recs[u].get("pgs", {})}}
        # adopt the copy into the model (C12 oracle judges equality with the source)
        order = sorted(new_recs, key=lambda u: (0 if u == root_new else 1, new_recs[u]["kind"], new_recs[u]["name"], u))
        for i, u in enumerate(order):
            r = new_recs[u]
            if u in dmodel.recs:
                raise Violation("C06", "uid_reused", f"copy reuses identifier {u} of a live entity", {"what": "copy", "kind": r["kind"]})
            if dmodel.recs.get(r["parent"], {}).get("concat_group") or r.get("cls", "").startswith("Concatenated"):
                r["concat"] = True
            if r["kind"] == "group" and r["cls"].startswith("Concatenator"):
                r["concat_group"] = True
        for i, u in enumerate(order):
            dmodel.add(new_recs[u], op["id"], i)
        for u in order:
            for pg_uid in new_recs[u].get("pgs", {}):
                dmodel.pg_creator[pg_uid] = (op["id"], 0)
        self.note_created(op, dh, order)
        self.copies.append(info)
        self.keep_or_drop({**op}, dh, new)
        self.sim.probe("copy_cross" if dh != h else "copy_same")
        if any(len(pg["props"]) >= 2 for u in model.subtree(uid) for pg in model.recs[u].get("pgs", {}).values()) and op["children"]:
            self.sim.probe("copy_with_pg_of_2plus")
        if any(c["dst"] == uid for c in self.copies[:-1]):
            self.sim.probe("copy_of_copy")
        return "ok"

    def _deletable(self, model, uid) -> bool:
        return all(model.recs[u]["flags"]["allow_delete"] for u in model.subtree(uid))

    def _rm_target(self, rng, h):
        """Removal target: any entity; in a third of the cases a data set that sits in a property group (if there is one);
        sometimes the container of a protected entity."""
        model = self.h[h].model
        if rng.random() < 0.3:
            guarded = {model.recs[u]["parent"] for u, r in model.recs.items() if not r["flags"]["allow_delete"] and r.get("parent") in model.recs}
            guarded |= {model.recs[p]["parent"] for p in guarded if model.recs[p].get("parent") in model.recs}
            guarded.discard(model.root)
            t = self.target(rng, h, "entity", lambda r: r["uid"] in guarded and r["flags"]["allow_delete"])
            if t is not None:
                return t
        if rng.random() < (0.22 if self.prop == "C05" else 0.12):
            # a drillhole group (or its container) that holds ordinary data besides its holes
            loaded = {u for u, r in model.recs.items() if r.get("concat_group") and any(model.recs[c]["kind"] == "data" for c in r["children"])}
            loaded |= {model.recs[u]["parent"] for u in loaded if model.recs[u].get("parent") in model.recs and model.recs[u]["parent"] != model.root}
            t = self.target(rng, h, "entity", lambda r: r["uid"] in loaded and self._deletable(model, r["uid"]))
            if t is not None:
                return t
        if rng.random() < (0.5 if self.prop == "C05" else 0.35):
            model = self.h[h].model
            grouped = {d for rec in model.recs.values() for pg in (rec.get("pgs") or {}).values() for d in pg["props"]}
            t = self.target(rng, h, "entity", lambda r: r["uid"] in grouped)
            if t is not None:
                return t
        return self.target(rng, h, "entity")

    def gen_rm_ws(self, rng, h):
        t = self._rm_target(rng, h)
        return None if t is None else {"t": t}

    def do_rm_ws(self, op):
        h = op["h"]
        model = self.h[h].model
        uid = self.resolve(h, op["t"])
        if uid is None:
            return "skipped"
        rec = model.recs[uid]
        refuse = not rec["flags"]["allow_delete"]
        if not refuse and not self._deletable(model, uid):
            # a protected descendant: the removal is refused part-way.  Which descendants are gone by then is not stated by
            # any property; the file must stay valid and consistent with the live tree, so the model adopts what LIVE shows.
            if rec.get("concat") or rec.get("concat_group") or any(model.recs[u].get("concat") for u in model.subtree(uid)):
                return "skipped"
            return self._rm_partial(op, h, uid)
        if any(model.recs[u].get("concat_group") and any(model.recs[c]["kind"] == "data" for c in model.recs[u]["children"]) for u in model.subtree(uid)):
            self.sim.probe("rm_drillhole_group_with_data")
        self.touch(h, uid)
        ent = self.ent(h, uid)
        ws = self.h[h].ws
        _, outcome = self.call(lambda: ws.remove_entity(ent), "refuse" if refuse else "ok", what=f"rm_ws {rec['cls']}")
        del ent
        if refuse:
            if outcome == "accepted":
                raise Violation("C05", "protected_removed", f"remove_entity accepted {rec['cls']} with allow_delete off", {"cls_kind": rec["kind"]})
            self.sim.probe("rm_refused")
            return outcome
        if outcome != "ok":
            return outcome
        self._model_remove(h, uid, "ws")
        return "ok"

    def _model_remove(self, h, uid, entry):
        model = self.h[h].model
        rec = model.recs[uid]
        if rec["kind"] == "data":
            owner = model.recs[rec["parent"]]
            n_pgs = sum(1 for pg in owner.get("pgs", {}).values() if uid in pg["props"])
            self.sim.probe(f"rm_data_in_{min(n_pgs, 2)}_pgs")
        gone = model.remove(uid)
        for g in gone:
            model.zombies[g]["group"] = uid
            model.zombies[g]["entry"] = entry
            model.zombies[g]["gc_at_removal"] = self.gc_events()
            # (kept after the identifier is re-used: a removal through the parent leaves the node in the file -- known finding)
            model.__dict__.setdefault("removed_entry", {})[g] = entry
            model.__dict__.setdefault("removed_root", {})[g] = uid
        self.sim.probe("rm_" + entry)
        return gone

    def _rm_partial(self, op, h, uid):
        model = self.h[h].model
        ws = self.h[h].ws
        subtree = list(model.subtree(uid))
        self.touch(h, *subtree)
        ent = self.ent(h, uid)
        _, outcome = self.call(lambda: ws.remove_entity(ent), "either", what="rm_ws (protected descendant)")
        del ent
        self.sim.probe("rm_protected_descendant")
        # adopt: whatever is no longer reachable live is removed from the model (leaves first)
        depth = {u: 0 for u in subtree}
        for u in subtree:
            p, d = model.recs[u]["parent"], 0
            while p in depth:
                d += 1
                p = model.recs[p]["parent"]
            depth[u] = d
        reachable, stack = set(), [ws.root]
        while stack:     # (what the live tree still shows; a lookup by identifier would also find removed entities the caller holds)
            node = stack.pop()
            reachable.add(ustr(node.uid))
            stack.extend(snapshot.children_of(node))
        del node, stack
        for u in sorted(subtree, key=lambda x: -depth[x]):
            if u in model.recs and u not in reachable:
                gone = model.remove(u)
                for g in gone:
                    model.zombies[g]["group"] = u
                    model.zombies[g]["entry"] = "ws"
                    model.zombies[g]["gc_at_removal"] = self.gc_events()
                    model.__dict__.setdefault("removed_entry", {})[g] = "ws"
        # survivors of the subtree: property groups (they are children too) may have gone before the refusal
        for u in subtree:
            if u in model.recs and model.recs[u]["kind"] == "object" and not model.recs[u].get("concat"):
                obj = self.ent(h, u)
                live_pgs = snapshot.record(obj, with_arrays=False)["pgs"]
                del obj
                for pg_uid in set(model.recs[u].get("pgs", {})) - set(live_pgs):
                    model.removed.add(pg_uid)
                model.recs[u]["pgs"] = live_pgs
        return "partial:" + outcome.split(":")[0]

    def gen_rm_parent(self, rng, h):
        t = self._rm_target(rng, h)
        return None if t is None else {"t": t}

    def do_rm_parent(self, op):
        h = op["h"]
        model = self.h[h].model
        uid = self.resolve(h, op["t"])
        if uid is None:
            return "skipped"
        rec = model.recs[uid]
        if rec.get("concat") and not self._deletable(model, uid):
            return "skipped"
        self.touch(h, uid)
        ent = self.ent(h, uid)
        parent = self.ent(h, rec["parent"]) if rec["parent"] != model.root else self.h[h].ws.root
        _, outcome = self.call(lambda: parent.remove_children([ent]), what=f"rm_parent {rec['cls']}")
        del ent, parent
        if outcome != "ok":
            return outcome
        gone = self._model_remove(h, uid, "parent")
        if self.tidy and not rec.get("concat"):
            # the clean-up idiom that goes with remove_children (its docstring: inactive entities are
            # removed by remove_none_referents): drop own references, collect, list the registries.
            # Canary runs (tidy off) skip it and meet the known orphan-node finding.
            for g in gone:
                self.slots.pop((h, g), None)
            self.sim.collect("tidy")
            ws = self.h[h].ws
            for name in ("groups", "objects", "data", "types"):
                getattr(ws, name)
            self.sim.probe("rm_parent_tidied")
        return "ok"

    # ---- property groups ---------------------------------------------------------------------
    def gen_pg_add(self, rng, h):
        t = self.target(rng, h, "data", lambda r: not r.get("concat") and r["attrs"].get("Association") in ("VERTEX", "CELL"))
        if t is None:
            return None
        pred = lambda r: not r.get("concat") and r["attrs"].get("Association") in ("VERTEX", "CELL")  # noqa: E731
        name, cross = rng.choice(["pgA", "pgB", "pgC"]), rng.random() < 0.4
        if cross:
            model = self.h[h].model
            rec = model.recs[self.resolve(h, t, pred)]
            other = sorted(pg["name"] for pg in model.recs[rec["parent"]].get("pgs", {}).values() if pg["assoc"] != rec["attrs"]["Association"])
            if other:
                name = rng.choice(other)      # a group of the other association on the same object
        return {"t": t, "pg": name, "cross": cross, "foreign": rng.randrange(1000) if rng.random() < (0.25 if self.prop == "C02" else 0.08) else None, "fform": rng.randrange(3)}

    def _pg_add_foreign(self, op, h, uid):
        """The identifier of a data set of ANOTHER object offered to a property group: ignored or refused, never listed."""
        model = self.h[h].model
        rec = model.recs[uid]
        owner = model.recs[rec["parent"]]
        others = sorted(u for u, r in model.recs.items() if r["kind"] == "data" and not r.get("concat") and r["parent"] != rec["parent"])
        if not others:
            return "skipped"
        foreign = uid_obj(others[op["foreign"] % len(others)])
        assoc = rec["attrs"]["Association"]
        have = [p for p, pg in owner["pgs"].items() if pg["name"] == op["pg"]]
        form = op.get("fform", 0) if have else 2
        if form == 2 and any(pg["name"] == op["pg"] and pg["assoc"] != assoc for pg in owner["pgs"].values()):
            return "skipped"
        self.touch_pg(h, rec["parent"])
        obj = self.ent(h, rec["parent"])
        live_pg = next((p for p in (obj.property_groups or []) if have and ustr(p.uid) == have[0]), None)
        if form < 2 and live_pg is None:
            raise Violation("C01", "live_mismatch", f"property group {have[0]} missing on live object", {"where": "pg_add"})
        if form == 0:
            _, outcome = self.call(lambda: live_pg.add_properties(foreign), "either", what="pg_add foreign")
        elif form == 1:
            _, outcome = self.call(lambda: obj.add_data_to_group(foreign, live_pg), "either", what="pg_add foreign")
        else:
            _, outcome = self.call(lambda: obj.add_data_to_group([uid_obj(uid), foreign], op["pg"]), "either", what="pg_add foreign")
        del obj, live_pg
        self.sim.probe("pg_add_foreign_uid")
        if form == 2 and outcome == "ok":
            self._model_pg_add(h, rec["parent"], op["pg"], [uid], assoc, op)
        return outcome if outcome != "ok" else "ok"

    def do_pg_add(self, op):
        h = op["h"]
        model = self.h[h].model
        uid = self.resolve(h, op["t"], lambda r: not r.get("concat") and r["attrs"].get("Association") in ("VERTEX", "CELL"))
        if uid is None:
            return "skipped"
        rec = model.recs[uid]
        owner = model.recs[rec["parent"]]
        if owner["kind"] != "object":
            return "skipped"
        assoc = rec["attrs"]["Association"]
        for pg in owner["pgs"].values():
            if pg["name"] == op["pg"] and pg["assoc"] != assoc:
                # the library does not compare associations: vertex data may join a cell group (and the reverse)
                if not op.get("cross"):
                    return "skipped"
                self.sim.probe("pg_cross_association")
        if op.get("foreign") is not None:
            return self._pg_add_foreign(op, h, uid)
        self.touch_pg(h, rec["parent"])
        obj = self.ent(h, rec["parent"])
        data = self.ent(h, uid)
        _, outcome = self.call(lambda: obj.add_data_to_group(data, op["pg"]), what="pg_add")
        del obj, data
        if outcome != "ok":
            return outcome
        self._model_pg_add(h, rec["parent"], op["pg"], [uid], assoc, op)
        return "ok"

    def _pg_target(self, rng, h):
        model = self.h[h].model
        pgs = [(pg_uid, owner) for pg_uid, (owner, pg) in model.pgs().items() if not model.recs[owner].get("concat")]
        if not pgs:
            return None
        pg_uid, owner = rng.choice(pgs)
        by, n = model.pg_creator.get(pg_uid, (None, 0))
        return {"by": by, "n": n, "fb": [p for p, _ in pgs].index(pg_uid)}

    def _pg_resolve(self, h, t):
        model = self.h[h].model
        pgs = [(pg_uid, owner) for pg_uid, (owner, pg) in model.pgs().items() if not model.recs[owner].get("concat")]
        if not pgs:
            return None, None
        if t.get("by") is not None:
            mine = [(p, o) for p, o in pgs if model.pg_creator.get(p, (None, 0))[0] == t["by"]]
            if mine:
                return mine[t["n"] % len(mine)]
        return pgs[t["fb"] % len(pgs)]

    def gen_pg_rm(self, rng, h):
        t = self._pg_target(rng, h)
        # "many": several entries in one call, members and non-members of the group in any order
        return None if t is None else {"t": t, "which": rng.randrange(8), "many": rng.getrandbits(12) if rng.random() < 0.4 else 0}

    def do_pg_rm(self, op):
        h = op["h"]
        model = self.h[h].model
        pg_uid, owner = self._pg_resolve(h, op["t"])
        if pg_uid is None:
            return "skipped"
        pg = model.recs[owner]["pgs"][pg_uid]
        if not pg["props"]:
            return "skipped"
        data_uid = pg["props"][op["which"] % len(pg["props"])]
        self.touch_pg(h, owner)
        obj = self.ent(h, owner)
        live_pg = [p for p in (obj.property_groups or []) if ustr(p.uid) == pg_uid]
        if not live_pg:
            raise Violation("C01", "live_mismatch", f"property group {pg_uid} missing on live object", {"where": "pg_rm"})
        targets = [data_uid]
        if op.get("many"):
            bits = op["many"]
            others = [c for c in model.recs[owner]["children"] if model.recs[c]["kind"] == "data" and c != data_uid]
            picked = [c for i, c in enumerate(sorted(others)) if (bits >> i) & 1][:3]
            targets = picked[:1] + [data_uid] + picked[1:] if (bits >> 11) & 1 else [data_uid] + picked
            if len(targets) > 1:
                self.sim.probe("pg_rm_many")
                if targets[-1] not in pg["props"]:
                    self.sim.probe("pg_rm_many_last_not_member")
        arg = uid_obj(data_uid) if len(targets) == 1 else [uid_obj(t) for t in targets]
        _, outcome = self.call(lambda: live_pg[0].remove_properties(arg), what="pg_rm")
        del obj, live_pg
        if outcome != "ok":
            return outcome
        pg["props"] = [p for p in pg["props"] if p not in targets]
        if not pg["props"]:
            del model.recs[owner]["pgs"][pg_uid]
            model.removed.add(pg_uid)
            self.sim.probe("pg_emptied")
        return "ok"

    def gen_pg_del(self, rng, h):
        t = self._pg_target(rng, h)
        return None if t is None else {"t": t}

    def do_pg_del(self, op):
        h = op["h"]
        model = self.h[h].model
        pg_uid, owner = self._pg_resolve(h, op["t"])
        if pg_uid is None:
            return "skipped"
        self.touch_pg(h, owner)
        obj = self.ent(h, owner)
        live_pg = [p for p in (obj.property_groups or []) if ustr(p.uid) == pg_uid]
        if not live_pg:
            raise Violation("C01", "live_mismatch", f"property group {pg_uid} missing on live object", {"where": "pg_del"})
        ws = self.h[h].ws
        _, outcome = self.call(lambda: ws.remove_entity(live_pg[0]), what="pg_del")
        del obj, live_pg
        if outcome != "ok":
            return outcome
        del model.recs[owner]["pgs"][pg_uid]
        model.removed.add(pg_uid)
        return "ok"

    def gen_pg_new(self, rng, h):
        t = self.target(rng, h, "object", lambda r: not r.get("concat") and r["cls"] != "Drillhole")
        if t is None:
            return None
        return {"t": t, "pg": rng.choice(["pgA", "pgB", "pgC", "pgE"]), "assoc": rng.choice(["VERTEX", "CELL"])}

    def do_pg_new(self, op):
        """An empty property group: created but never populated (legal; it survives re-open)."""
        h = op["h"]
        model = self.h[h].model
        uid = self.resolve(h, op["t"], lambda r: not r.get("concat") and r["cls"] != "Drillhole")
        if uid is None:
            return "skipped"
        orec = model.recs[uid]
        if any(pg["name"] == op["pg"] for pg in orec["pgs"].values()):
            return "skipped"
        self.touch_pg(h, uid)
        obj = self.ent(h, uid)
        pg, outcome = self.call(lambda: obj.find_or_create_property_group(name=op["pg"], association=op["assoc"]), what="pg_new")
        del obj
        if outcome != "ok":
            return outcome
        pg_uid = ustr(pg.uid)
        if pg_uid in model.all_ids():
            raise Violation("C06", "uid_reused", f"new property group reuses identifier {pg_uid}", {"what": "pg"})
        orec["pgs"][pg_uid] = {"name": op["pg"], "assoc": op["assoc"], "type": pg.property_group_type, "props": []}
        model.pg_creator[pg_uid] = (op["id"], 0)
        del pg
        self.sim.probe("pg_empty_created")
        return "ok"

    def gen_move_data(self, rng, h):
        t = self.target(rng, h, "data", lambda r: not r.get("concat") and r["cls"] not in ("CommentsData",))
        d = self.target(rng, h, "object", lambda r: not r.get("concat") and r["cls"] != "Drillhole")
        if t is None or d is None:
            return None
        return {"t": t, "d": d, "pick": rng.randrange(1000)}

    def do_move_data(self, op):
        """Re-parent a data set to another object whose element count matches its association."""
        h = op["h"]
        model = self.h[h].model
        uid = self.resolve(h, op["t"], lambda r: not r.get("concat") and r["cls"] not in ("CommentsData",))
        if uid is None:
            return "skipped"
        if op.get("only_created_by") is not None and (h, uid) not in self.created.get(op["only_created_by"], []):
            return "skipped"
        rec = model.recs[uid]
        src = model.recs[rec["parent"]]
        if src["kind"] != "object":
            return "skipped"
        if op.get("only_created_by") is not None:
            self.sim.probe("partial_retention_pattern")
        assoc = rec["attrs"].get("Association", "OBJECT")
        n_src = self._n_for(src, assoc)
        fits = [u for u in model.alive("object") if u != rec["parent"] and not model.recs[u].get("concat") and model.recs[u]["cls"] != "Drillhole"
                and (assoc == "OBJECT" or self._n_for(model.recs[u], assoc) == n_src)
                and rec["name"] not in [model.recs[c]["name"] for c in model.recs[u]["children"]]]
        if not fits:
            return "skipped"
        dest = fits[op["pick"] % len(fits)]
        self.touch(h, uid)
        ent = self.ent(h, uid)
        parent = self.ent(h, dest)

        def assign():
            ent.parent = parent

        _, outcome = self.call(assign, what="move_data")
        if outcome != "ok":
            return outcome
        if ustr(ent.parent.uid) != dest:
            raise Violation("C01", "live_mismatch", "parent not changed by move", {"field": "parent", "where": "move_data"})
        del ent, parent
        in_pg = any(uid in pg["props"] for pg in src["pgs"].values())
        model.move(uid, dest)
        self.sim.probe("move_data_in_pg" if in_pg else "move_data")
        return "ok"

    def gen_copy_extent(self, rng, h):
        t = self.target(rng, h, "holder", lambda r: not r.get("concat") and not r.get("concat_group"))
        if t is None:
            return None
        dh = h
        if "B" in self.h and rng.random() < 0.5:
            dh = "B" if h == "A" else "A"
        return {"t": t, "dh": dh, "d": self.target(rng, dh, "container"), "sel": "none", "children": True}

    def do_copy_extent(self, op):
        """copy_from_extent with a box that misses everything ('none': nothing may change) or
        contains everything ('all': behaves like copy for point/cell objects)."""
        h, dh = op["h"], op["dh"]
        if dh not in self.h:
            dh = h
        model, dmodel = self.h[h].model, self.h[dh].model
        uid = self.resolve(h, op["t"], lambda r: not r.get("concat") and not r.get("concat_group"))
        dest = self.resolve(dh, op["d"])
        if uid is None or dest is None:
            return "skipped"
        rec = model.recs[uid]
        if dmodel.recs[dest].get("concat_group") or (dh == h and dest in model.subtree(uid)):
            return "skipped"
        if op["sel"] == "all" or not op["children"]:
            return "skipped"   # only the 'selects nothing' case is modelled (exact selection is C13: not applicable)
        if not self._deletable(model, uid):
            return "skipped"
        if any(model.recs[u]["cls"] in ("Drillhole", "ConcatenatedDrillhole") or model.recs[u].get("concat_group") for u in model.subtree(uid)):
            return "skipped"
        box = np.array([[1e6, 1e6, 1e6], [2e6, 2e6, 2e6]]) if op["sel"] == "none" else np.array([[-1e6, -1e6, -1e6], [1e6, 1e6, 1e6]])
        ent = self.ent(h, uid)
        parent = self.ent(dh, dest)
        in_use = dmodel.all_ids() | {dmodel.root}
        before_dest = sorted(dmodel.recs[dest]["children"])
        new, outcome = self.call(lambda: ent.copy_from_extent(box, parent=parent, copy_children=op["children"]), what=f"copy_extent {rec['cls']}")
        del ent
        if outcome != "ok":
            del parent
            return outcome
        if op["sel"] == "none":
            kids = sorted(ustr(c.uid) for c in snapshot.children_of(parent))
            del parent
            if new is not None or kids != before_dest:
                raise Violation("C12", "extent_none_left_copy", f"copy_from_extent selecting nothing left a copy of {rec['cls']} behind",
                                {"cls": rec["cls"], "ws": "same" if dh == h else "other"})
            self.sim.probe("copy_extent_none")
            return "ok"
        del parent
        if new is None:
            return "raised:None"
        new_recs = snapshot.subtree(self.h[dh].ws, new)
        root_new = ustr(new.uid)
        info = {"h": h, "src": uid, "dh": dh, "dst": root_new, "children": op["children"], "new": new_recs, "in_use": in_use,
                "src_ids": set(model.subtree(uid)) | {p for u in model.subtree(uid) for p in model.recs[u].get("pgs", {})}}
        order = sorted(new_recs, key=lambda u: (0 if u == root_new else 1, new_recs[u]["kind"], new_recs[u]["name"], u))
        for i, u in enumerate(order):
            if u in dmodel.recs:
                raise Violation("C06", "uid_reused", f"copy reuses identifier {u} of a live entity", {"what": "copy_extent", "kind": new_recs[u]["kind"]})
            dmodel.add(new_recs[u], op["id"], i)
        for u in order:
            for pg_uid in new_recs[u].get("pgs", {}):
                dmodel.pg_creator[pg_uid] = (op["id"], 0)
        self.note_created(op, dh, order)
        self.copies.append(info)
        self.keep_or_drop({**op}, dh, new)
        self.sim.probe("copy_extent_all")
        return "ok"

    def gen_type_edit(self, rng, h):
        t = self.target(rng, h, "data", lambda r: not r.get("concat") and r["cls"] not in ("CommentsData", "FilenameData"))
        if t is None:
            return None
        what = rng.choice(["units", "description", "value_map", "hidden"])
        if self.prop == "C09" and rng.random() < 0.4:
            # labels of a boolean / referenced data set (its type then carries a map of its own)
            t2 = self.target(rng, h, "data", lambda r: not r.get("concat") and r.get("primitive") in ("BOOLEAN", "REFERENCED"))
            if t2 is not None:
                t, what = t2, "value_map"
        return {"t": t, "what": what, "val": rng.choice(["m", "ppm", "Ωm", "desc é"]), "key": rng.randrange(1, 6)}

    def do_type_edit(self, op):
        """Edit the data type of a data set (shared by its copies): only that type node may change (C09)."""
        h = op["h"]
        model = self.h[h].model
        uid = self.resolve(h, op["t"], lambda r: not r.get("concat") and r["cls"] not in ("CommentsData", "FilenameData"))
        if uid is None:
            return "skipped"
        rec = model.recs[uid]
        ent = self.ent(h, uid)
        dtype = ent.entity_type
        what = op["what"]
        if what == "value_map" and rec.get("primitive") not in ("REFERENCED", "BOOLEAN"):
            what = "units"
        self.last_type = (h, f"T/Data types/{rec['type_uid']}")

        def edit():
            if what == "units":
                dtype.units = op["val"]
            elif what == "description":
                dtype.description = op["val"]
            elif what == "hidden":
                dtype.hidden = not dtype.hidden
            else:
                if rec.get("primitive") == "BOOLEAN":
                    dtype.value_map = {0: "Unknown", 1: op["val"]}
                else:
                    new_map = dict(dtype.value_map.map) if dtype.value_map is not None else {0: "Unknown"}
                    new_map[op["key"]] = op["val"]
                    dtype.value_map = new_map

        _, outcome = self.call(edit, what="type_edit " + what)
        del ent, dtype
        self.sim.probe("type_edit_" + what)
        return outcome

    @staticmethod
    def _typed_data(rec):
        return not rec.get("concat") and rec["cls"] not in ("CommentsData", "FilenameData")

    def gen_retype(self, rng, h):
        model = self.h[h].model
        counts: dict = {}
        for r in model.recs.values():
            counts[r["type_uid"]] = counts.get(r["type_uid"], 0) + 1
        # prefer a data set whose current type has other users (a copy, a sibling created with the same type)
        t = (self.target(rng, h, "data", lambda r: self._typed_data(r) and counts.get(r["type_uid"], 0) > 1) if rng.random() < 0.7 else None) \
            or self.target(rng, h, "data", self._typed_data)
        if t is None:
            return None
        first = model.recs[self.resolve(h, t, self._typed_data)]
        # another data set of the same class whose type differs (falls back to any data: then the operation is skipped)
        t2 = self.target(rng, h, "data", lambda r: self._typed_data(r) and r["cls"] == first["cls"] and r["type_uid"] != first["type_uid"]) \
            or self.target(rng, h, "data", self._typed_data)
        return {"t": t, "t2": {**t2, "same_cls": True}, "fresh": rng.choice(["new", "copy"]) if rng.random() < 0.35 else None, "tname": build.name(rng)}

    def _retype_fresh(self, op, h, uid):
        """A data type that is not in the file yet (built by the caller, or a copy of the current one) given to a stored data set."""
        from geoh5py.data import DataType

        model = self.h[h].model
        rec = model.recs[uid]
        self.touch(h, uid)
        ent = self.ent(h, uid)

        def assign():
            if op["fresh"] == "new":
                new_type = DataType(ent.workspace, primitive_type=ent.entity_type.primitive_type, name=op["tname"])
            else:
                new_type = ent.entity_type.copy(name=op["tname"])
            ent.entity_type = new_type
            return new_type.uid

        new_uid, outcome = self.call(assign, what="retype fresh")
        del ent
        if outcome != "ok":
            return outcome
        rec["type_uid"] = ustr(new_uid)
        self.sim.probe("retype_fresh_type")
        return "ok"

    def do_retype(self, op):
        """Give a data set the (already stored) type of another data set of its class: its node changes, the new type
        gains a user, the old type node stays as long as anything else uses it (C09)."""
        h = op["h"]
        model = self.h[h].model
        uid = self.resolve(h, op["t"], self._typed_data)
        if uid is None:
            return "skipped"
        rec = model.recs[uid]
        if op.get("fresh") and rec["cls"] in ("FloatData", "IntegerData", "TextData"):
            return self._retype_fresh(op, h, uid)
        uid2 = self.resolve(h, op["t2"], lambda r: self._typed_data(r) and r["cls"] == rec["cls"] and r["type_uid"] != rec["type_uid"])
        if uid2 is None or uid2 == uid:
            return "skipped"
        rec2 = model.recs[uid2]
        if rec.get("primitive") != rec2.get("primitive"):
            return "skipped"
        self.touch(h, uid)
        ent, other = self.ent(h, uid), self.ent(h, uid2)
        new_type = other.entity_type

        def assign():
            ent.entity_type = new_type

        _, outcome = self.call(assign, what="retype")
        del ent, other, new_type
        if outcome != "ok":
            return outcome
        if any(r["type_uid"] == rec["type_uid"] for u, r in model.recs.items() if u != uid):
            self.sim.probe("retype_old_type_shared")
        rec["type_uid"] = rec2["type_uid"]
        self.sim.probe("retype")
        return "ok"

    def gen_hole_attr(self, rng, h):
        t = self.target(rng, h, "object", lambda r: r.get("concat"))
        if t is None:
            return None
        attr = rng.choice(["name", "visible", "public", "allow_rename", "cost"])
        val = {"name": build.name(rng), "visible": rng.random() < 0.5, "public": rng.random() < 0.5, "allow_rename": rng.random() < 0.5, "cost": rng.randrange(1, 50) / 2.0}[attr]
        return {"t": t, "attr": attr, "val": val}

    def do_hole_attr(self, op):
        """Assign a scalar attribute of a concatenated drillhole (its record is written when the workspace closes)."""
        h = op["h"]
        model = self.h[h].model
        uid = self.resolve(h, op["t"], lambda r: r.get("concat"))
        if uid is None:
            return "skipped"
        self.touch(h, uid)
        ent = self.ent(h, uid)

        def assign():
            setattr(ent, op["attr"], op["val"])

        _, outcome = self.call(assign, what="hole_attr " + op["attr"])
        del ent
        if outcome != "ok":
            return outcome
        rec = model.recs[uid]
        if op["attr"] == "name":
            rec["name"] = op["val"]
        elif op["attr"] == "cost":
            rec["attrs"]["Cost"] = op["val"]
        else:
            rec["flags"][op["attr"]] = int(op["val"])
        return "ok"

    def gen_rm_all(self, rng, h):
        model = self.h[h].model
        # (a group, or an object with several data sets)
        t = self.target(rng, h, "holder", lambda r: len(r["children"]) >= 2 and not r.get("concat_group") and not r.get("concat"))
        return None if t is None else {"t": t}

    def do_rm_all(self, op):
        """The 'detach all' idiom: parent.remove_children(parent.children) -- the live list itself is passed."""
        h = op["h"]
        model = self.h[h].model
        uid = self.resolve(h, op["t"], lambda r: len(r["children"]) >= 2 and not r.get("concat_group") and not r.get("concat"))
        if uid is None:
            return "skipped"
        kids = list(model.recs[uid]["children"])
        if model.recs[uid]["kind"] == "object":
            self.sim.probe("rm_all_data_of_object")
        parent = self.ent(h, uid) if uid != model.root else self.h[h].ws.root
        self.touch(h, *kids)
        _, outcome = self.call(lambda: parent.remove_children(parent.children), what="rm_all")
        del parent
        if outcome != "ok":
            return outcome
        gone = []
        for kid in kids:
            gone += self._model_remove(h, kid, "parent")
        if uid in model.recs and model.recs[uid]["kind"] == "object" and model.recs[uid].get("pgs"):
            # an object's list of children holds its property groups as well: they were handed over with the data
            for pg_uid in list(model.recs[uid]["pgs"]):
                model.removed.add(pg_uid)
            model.recs[uid]["pgs"] = {}
            self.touch_pg(h, uid)
        if self.tidy:
            for g in gone:
                self.slots.pop((h, g), None)
            self.sim.collect("tidy")
            ws = self.h[h].ws
            for name in ("groups", "objects", "data", "types"):
                getattr(ws, name)
        self.sim.probe("rm_all")
        return "ok"

    def gen_reattach(self, rng, h):
        t = self.target(rng, h, "entity", lambda r: not r.get("concat") and r["kind"] != "data" or (not r.get("concat") and not any(True for _ in ())))
        return None if t is None else {"t": t}

    def do_reattach(self, op):
        """Detach a child from its parent and attach it to the same parent again (nothing changes for the user)."""
        h = op["h"]
        model = self.h[h].model
        uid = self.resolve(h, op["t"], lambda r: not r.get("concat"))
        if uid is None:
            return "skipped"
        rec = model.recs[uid]
        prec = model.recs[rec["parent"]]
        if prec.get("concat_group") or prec.get("concat"):
            return "skipped"
        if rec["kind"] == "data" and any(uid in pg["props"] for pg in prec.get("pgs", {}).values()):
            return "skipped"     # detaching scrubs the property groups: not a no-op for the user
        self.touch(h, uid)
        ent = self.ent(h, uid)
        parent = self.ent(h, rec["parent"]) if rec["parent"] != model.root else self.h[h].ws.root

        def both():
            parent.remove_children([ent])
            ent.parent = parent

        _, outcome = self.call(both, what="reattach")
        del ent, parent
        self.sim.probe("reattach")
        return outcome

    # ---- identifier reuse (C06) --------------------------------------------------------------
    def gen_mk_dup(self, rng, h):
        model = self.h[h].model
        choice = rng.choice(["live_same", "live_other", "removed", "pg", "fresh", "root"])
        return {"mode": choice, "pick": rng.randrange(1000), "as": rng.choice(["group", "object", "data", "pg"]),
                "t": self.target(rng, h, "container"), "o": self.target(rng, h, "object", lambda r: not r.get("concat")), "same_owner": rng.random() < 0.5}

    def do_mk_dup(self, op):
        from geoh5py import groups, objects

        h = op["h"]
        model = self.h[h].model
        mode, kind = op["mode"], op["as"]
        pool: list[str]
        if mode == "live_same":
            pool = [u for u in model.alive(kind)] if kind != "pg" else sorted(model.pgs())
        elif mode == "live_other":
            pool = [u for u in model.alive("entity") if model.recs[u]["kind"] != kind]
        elif mode == "removed":
            pool = sorted(u for u in model.removed if u not in model.all_ids())
        elif mode == "pg":
            pool = sorted(model.pgs())
        elif mode == "root":
            pool = [model.root]
        else:
            pool = []
        if mode != "fresh" and not pool:
            return "skipped"
        if mode == "fresh":
            the_uid = ustr(uuid.UUID(int=random.Random(op["sub"]).getrandbits(128), version=4))
        else:
            the_uid = pool[op["pick"] % len(pool)]
        parent_uid = self.resolve(h, op["t"])
        obj_uid = self.resolve(h, op["o"], lambda r: not r.get("concat"))
        ws = self.h[h].ws
        if kind in ("data", "pg"):
            if op.get("same_owner") and the_uid in model.pgs() and not model.recs[model.pgs()[the_uid][0]].get("concat"):
                obj_uid = model.pgs()[the_uid][0]       # the object that already owns the group with this identifier
                self.sim.probe("dup_pg_uid_on_its_owner")
            if obj_uid is None:
                return "skipped"
            holder_uid = obj_uid
        else:
            if parent_uid is None:
                return "skipped"
            holder_uid = parent_uid
        holder = self.ent(h, holder_uid)
        before = snapshot.record(holder, with_arrays=False)
        if kind == "group":
            fn = lambda: groups.ContainerGroup.create(ws, name="dup", parent=holder, uid=uid_obj(the_uid))
        elif kind == "object":
            fn = lambda: objects.Points.create(ws, name="dup", parent=holder, vertices=np.zeros((2, 3)), uid=uid_obj(the_uid))
        elif kind == "pg":
            pg_before = sorted(model.recs[holder_uid]["pgs"])
            self.touch_pg(h, holder_uid)
            fn = lambda: holder.create_property_group(name=f"dup{op['id']}", uid=uid_obj(the_uid))
        else:
            fn = lambda: holder.add_data({f"dup{op['id']}": {"values": np.array([1.0]), "association": "OBJECT", "uid": uid_obj(the_uid)}})
        in_use = the_uid in model.all_ids()
        zombie = the_uid in model.zombies and not model.zombies[the_uid].get("collected")
        expect = "refuse" if in_use else ("either" if zombie else "ok")
        self.sim.probe("dup_" + mode)
        ent, outcome = self.call(fn, expect, what=f"mk_dup {mode} as {kind}")
        if expect == "refuse" or (expect == "either" and outcome.startswith("refused")):
            after = snapshot.record(holder, with_arrays=False)
            del holder
            if outcome == "accepted":
                self._last_dup = {"uid": the_uid, "accepted": True, "mode": mode, "kind": kind}
                raise Violation("C06", "dup_uid_accepted", f"creating a {kind} with identifier {the_uid} already used by a "
                                f"{'property group' if mode == 'pg' else model.recs.get(the_uid, {}).get('kind', '?')} was accepted",
                                {"mode": mode, "as": kind})
            if after["children"] != before["children"] or sorted(after["pgs"]) != sorted(before["pgs"]) or \
                    any(len(set(p["props"])) != len(p["props"]) for p in after["pgs"].values()):
                raise Violation("C06", "refusal_side_effect", f"refused creation left a child in parent.children / property_groups "
                                f"({set(after['children']) ^ set(before['children'])} {set(after['pgs']) ^ set(before['pgs'])})", {"mode": mode, "as": kind})
            return outcome
        del holder
        if outcome != "ok" and not outcome.startswith("accepted"):
            return outcome
        if ent is None:
            return "raised:None"
        if kind == "pg":
            if ustr(ent.uid) != the_uid:
                raise Violation("C06", "uid_not_honoured", f"requested identifier {the_uid}, got {ustr(ent.uid)}", {"mode": mode, "as": kind})
            model.recs[holder_uid]["pgs"][the_uid] = {"name": ent.name, "assoc": ent.association.name.upper(), "type": ent.property_group_type, "props": []}
            model.pg_creator[the_uid] = (op["id"], 0)
            model.removed.discard(the_uid)
            del ent
            return "ok"
        rec = snapshot.record(ent)
        if rec["uid"] != the_uid:
            raise Violation("C06", "uid_not_honoured", f"requested identifier {the_uid}, got {rec['uid']}", {"mode": mode, "as": kind})
        model.add(rec, op["id"], 0)
        model.removed.discard(the_uid)
        self.note_created(op, h, [rec["uid"]])
        self.keep_or_drop(op, h, ent)
        return "ok"

    # ---- schedule / fault events -------------------------------------------------------------
    def gen_gc(self, rng, h):
        return {}

    def do_gc(self, op):
        self.sim.collect("event")
        return "ok"

    def gen_drop(self, rng, h):
        if not self.slots:
            return None
        return {"which": rng.randrange(1000), "all": rng.random() < 0.3}

    def do_drop(self, op):
        if not self.slots:
            return "skipped"
        keys = sorted(self.slots)
        if op["all"]:
            self.slots.clear()
        else:
            del self.slots[keys[op["which"] % len(keys)]]
        return "ok"

    def gen_list(self, rng, h):
        return {"what": rng.choice(["groups", "objects", "data", "types", "property_groups", "all"])}

    def do_list(self, op):
        ws = self.h[op["h"]].ws
        names = ["groups", "objects", "data", "types", "property_groups"] if op["what"] == "all" else [op["what"]]
        model = self.h[op["h"]].model
        for name in names:
            listing, outcome = self.call(lambda n=name: [ustr(e.uid) for e in getattr(ws, n)], "either", what="list " + name)
            if outcome != "ok":
                raise Violation("C05", "listing_raises", f"workspace.{name} raised {outcome.split(':')[1]}", {"listing": name})
            if name in ("groups", "objects", "data"):
                kind = name.rstrip("s") if name != "data" else "data"
                want = set(model.alive(kind)) | ({model.root} if kind == "group" else set())
                got = set(listing)
                if len(listing) != len(got):
                    raise Violation("C06", "listing_duplicate", f"workspace.{name} lists an identifier twice", {"listing": name})
                missing = want - got
                if missing:
                    raise Violation("C01", "listing_lost", f"workspace.{name} misses live entities {sorted(missing)[:3]}", {"listing": name})
                extra = {u for u in got - want if u in model.zombies and model.zombies[u].get("collected")}
                unknown = {u for u in got - want if u not in model.zombies}
                if extra:
                    raise Violation("C05", "listing_removed", f"workspace.{name} still lists removed {sorted(extra)[:3]} after collection", {"listing": name})
                if unknown:
                    raise Violation("C01", "listing_unknown", f"workspace.{name} lists unknown entities {sorted(unknown)[:3]}", {"listing": name})
        return "ok"

    def gen_lookup(self, rng, h):
        model = self.h[h].model
        return {"pick": rng.randrange(1000), "removed": rng.random() < 0.5, "by_name": rng.random() < 0.3}

    def do_lookup(self, op):
        h = op["h"]
        model = self.h[h].model
        ws = self.h[h].ws
        if op["removed"]:
            pool = sorted(u for u, z in model.zombies.items() if u not in model.recs)
            if not pool:
                return "skipped"
            uid = pool[op["pick"] % len(pool)]
            z = model.zombies[uid]
            found = ws.get_entity(uid_obj(uid))[0]
            is_found = found is not None
            del found
            held = (h, z.get("group")) in self.held_groups()
            if is_found and z.get("collected") and not held:
                raise Violation("C05", "lookup_removed", f"get_entity({uid}) still returns the removed {z['rec']['kind']} after its references "
                                "were dropped and a collection ran", {"kind": z["rec"]["kind"], "entry": z.get("entry")})
            self.sim.probe("lookup_removed_judged" if (z.get("collected") and not held) else "lookup_removed_relaxed")
            return "ok"
        pool = model.alive("entity")
        if not pool:
            return "skipped"
        uid = pool[op["pick"] % len(pool)]
        rec = model.recs[uid]
        if op["by_name"]:
            found = [ustr(e.uid) for e in ws.get_entity(rec["name"]) if e is not None]
            if uid not in found:
                raise Violation("C01", "lookup_lost", f"get_entity({rec['name']!r}) does not return {uid}", {"kind": rec["kind"], "by": "name"})
            for u in found:
                if u in model.zombies and model.zombies[u].get("collected") and (h, model.zombies[u].get("group")) not in self.held_groups():
                    raise Violation("C05", "lookup_removed", f"get_entity(name) returns removed entity {u}", {"kind": model.zombies[u]["rec"]["kind"], "by": "name"})
            return "ok"
        found = ws.get_entity(uid_obj(uid))
        if len(found) != 1 or found[0] is None or ustr(found[0].uid) != uid:
            raise Violation("C06", "lookup_owner", f"get_entity({uid}) -> {found}", {"kind": rec["kind"]})
        if snapshot.kind_of(found[0]) != rec["kind"]:
            raise Violation("C06", "lookup_owner", f"get_entity({uid}) returns a {snapshot.kind_of(found[0])}, owner is a {rec['kind']}", {"kind": rec["kind"]})
        del found
        return "ok"

    def gen_observe(self, rng, h):
        t = self.target(rng, h, "holder")
        return {"t": t}

    def do_observe(self, op):
        h = op["h"]
        uid = self.resolve(h, op["t"]) if op["t"] else None
        if uid is None:
            return "skipped"
        ent = self.ent(h, uid)
        recs = snapshot.subtree(self.h[h].ws, ent)
        del ent
        model = self.h[h].model
        diffs = compare.diff_trees({u: model.recs[u] for u in model.subtree(uid)}, recs, "MODEL", "LIVE")
        if diffs:
            raise Violation("C01", "model_live", diffs[0], {"where": "observe", "field": _field(diffs[0])})
        return "ok"

    # session boundaries
    def gen_close_reopen(self, rng, h):
        return {}

    def gen_reopen_same(self, rng, h):
        return {}

    def gen_save_as(self, rng, h):
        return {} if self.h[h].bytesio else None

    def do_close_reopen(self, op, same=False):
        h = op["h"]
        handle = self.h[h]
        if handle.bytesio:
            return self.do_save_as(op)
        self.boundary(h, same)
        return "ok"

    def do_reopen_same(self, op):
        return self.do_close_reopen(op, same=True)

    def do_save_as(self, op):
        h = op["h"]
        handle = self.h[h]
        if not handle.bytesio:
            return "skipped"
        self.drop_all(h)
        _, outcome = self.call(lambda: handle.ws.save_as(handle.path), what="save_as")
        if outcome != "ok":
            return outcome
        handle.bytesio = False
        self.sim.probe("save_as")
        return "ok"

    # =========================================================================== boundaries
    def pre_close_tidy(self, h):
        """Documented clean-up idiom (drop references, collect, list) -- used in the runs that
        avoid the known orphan-node finding; canary runs skip it."""
        ws = self.h[h].ws
        for key in [k for k in self.slots if k[0] == h and k[1] in self.h[h].model.zombies]:
            del self.slots[key]
        self.sim.collect("tidy")
        self.check_gc()
        for name in ("groups", "objects", "data", "types"):
            getattr(ws, name)

    def boundary(self, h: str, same: bool, final: bool = False):
        """close -> (oracles on the closed file) -> re-open (fresh Workspace or same object)."""
        from geoh5py import Workspace

        handle = self.h[h]
        ws = handle.ws
        if handle.bytesio:
            handle.ws.save_as(handle.path)
            handle.bytesio = False
        for orc in self.oracles:
            orc.before_close(self, h)
        if self.tidy:
            self.pre_close_tidy(h)
        self.drop_all(h)
        pending = sum(1 for u, z in handle.model.zombies.items() if not z.get("collected"))
        if pending:
            self.sim.probe("close_with_uncollected_removed")
        try:
            ws.close()
        except Exception as err:  # pylint: disable=broad-except
            raise Violation(self.prop if self.prop in ("C01", "C11", "C12") else "C01", "close_raises",
                            f"closing the workspace raised {type(err).__name__}: {str(err)[:120]} -- what was completed cannot reach the file",
                            {"exc": type(err).__name__}) from None
        self.sim.fault("ev:close")
        self.check_gc()
        del ws
        for orc in self.oracles:
            orc.at_close(self, h)
        handle.sessions += 1
        self.state_hash(h)
        if final:
            handle.ws = None
            return
        try:
            if same:
                handle.ws.open()
                self.sim.probe("reopen_same")
            else:
                handle.ws = None
                handle.ws = Workspace(handle.path, mode="r+")
                self.sim.probe("reopen_fresh")
        except Exception as err:  # the file the library wrote cannot be opened by the library
            import traceback

            where = traceback.extract_tb(err.__traceback__)[-1].name
            prop = self.prop if self.prop in ("C01", "C02", "C04", "C11") else "C01"
            raise Violation(prop, "reopen_fails", f"re-opening the closed file raised {type(err).__name__}: {str(err)[:120]} (in {where})",
                            {"exc": type(err).__name__, "at": where}) from None
        for z in handle.model.zombies.values():
            z["collected"] = True
        for orc in self.oracles:
            orc.after_reopen(self, h)

    def state_hash(self, h):
        model = self.h[h].model
        shape = sorted((r["kind"], r["cls"], len(r["children"]), len(r.get("pgs", {}))) for r in model.recs.values())
        self.states.add(rawgeoh5.sha(shape))

    def finish(self):
        for h in sorted(self.h):
            if self.h[h].ws is not None:
                self.boundary(h, same=False, final=True)


def _deep(val):
    import copy

    return copy.deepcopy(val)


def _field(diff: str) -> str:
    parts = diff.split(" ")
    return parts[1].rstrip(":") if len(parts) > 1 else "?"
