"""
The setter machine (C03): every (class, assignable attribute) pair discovered reflectively is joined with a
domain table; a run creates and stores one instance (optionally re-opened first so that it is lazily loaded),
assigns several attributes in PRNG order with GC / re-open events in between, and checks after each accepted
assignment that the live getter, the stored value read by the independent reader, and the value after the
next re-open agree.  Rejected assignments must leave live and stored values as they were.
"""

from __future__ import annotations

import inspect
import random
import uuid

import numpy as np

from . import build, compare, rawgeoh5, snapshot
from .kernel import H, Sim, Violation
from .scenarios import BaseScenario
from .snapshot import ustr

EXCLUDED = {"on_file", "uid", "parent", "workspace", "h5file", "repack", "visual_parameters", "image", "tag",
            "properties", "property_group_type", "depths", "primitive_type", "colour", "map"}
SURVEY_ATTRS = {"ab_cell_id", "base_stations", "channels", "crossline_offset", "current_electrodes", "inline_offset", "input_type", "loop_radius", "pitch",
                "potential_electrodes", "receivers", "relative_to_bearing", "roll", "timing_mark", "transmitters", "tx_id_property", "unit", "vertical_offset",
                "waveform", "yaw"}   # decided by C20's survey machine
FLAGS = ["allow_delete", "allow_move", "allow_rename", "partially_hidden", "public", "visible"]


def fval(r):
    return r.randrange(-256, 257) / 4.0


# attr -> (generator(rng, live entity) -> python value or raises Skip, kind)  kind: plain | coupled | merge
class Skip(Exception):
    pass


def _vertices(r, ent):
    cur = ent.vertices
    n = (cur.shape[0] if cur is not None else 2) + r.choice([0, 0, 1])
    return np.array([[fval(r), fval(r), fval(r)] for _ in range(n)])


def _cells(r, ent):
    cur = ent.cells
    nv = ent.vertices.shape[0]
    width = cur.shape[1] if cur is not None else 2
    n = (cur.shape[0] if cur is not None else 1) + r.choice([0, 0, 1])
    return np.array([[r.randrange(nv) for _ in range(width)] for _ in range(n)], dtype="uint32")


def _parts(r, ent):
    return np.array(sorted(r.randrange(2) for _ in range(ent.vertices.shape[0])), dtype="int32")


def _delims(r, ent):
    k = r.randint(1, 3)
    out = [0.0]
    for _ in range(k):
        out.append(out[-1] + r.choice([0.5, 1.0, 2.0]))
    return np.array(out)


def _octree_cells(r, ent):
    return ent.octree_cells   # re-assigning the current records (structured dtype) is a valid assignment


def _surveys(r, ent):
    n = r.randint(1, 3)
    depth, rows = 0.0, []
    for _ in range(n):
        rows.append([depth, r.choice([0.0, 45.0, 270.0]), r.choice([-90.0, -60.0])])
        depth += r.choice([5.0, 10.0])
    return np.array(rows)


def _layers(r, ent):
    return ent.layers   # same shape (prisms reference layers by index)


def _prisms(r, ent):
    cur = ent.prisms.copy()
    cur[:, 2] = [fval(r) for _ in range(cur.shape[0])]
    return cur


def _values(r, ent):
    from geoh5py.data import BooleanData, CommentsData, FilenameData, FloatData, IntegerData, ReferencedData, TextData

    n = ent.n_values or 1
    if isinstance(ent, CommentsData):
        return [{"Author": "a", "Date": "2020-01-01T00:00:00", "Text": r.choice(build.TEXTS)}]
    if isinstance(ent, FilenameData):
        return bytes(r.randrange(256) for _ in range(5))
    if isinstance(ent, BooleanData):
        return np.array([r.randrange(2) for _ in range(n)], dtype=bool)
    if isinstance(ent, ReferencedData):
        return np.array([r.randrange(0, 4) for _ in range(n)], dtype="uint32")
    if isinstance(ent, IntegerData):
        return np.array([r.randrange(-99, 99) for _ in range(n)], dtype="int32")
    if isinstance(ent, FloatData):
        return build.to_np_float(build.farr(r, n))
    if isinstance(ent, TextData):
        cur = ent.values
        if isinstance(cur, str):
            return r.choice(build.TEXTS[1:])
        return np.array([r.choice(build.TEXTS[1:]) for _ in range(len(cur))], dtype=str)
    raise Skip


def _entity_type(r, ent):
    """A data type that is NOT in the file yet (freshly built, or a copy of the current one) assigned to a stored data set."""
    from geoh5py.data import DataType, FloatData, IntegerData, TextData

    if not isinstance(ent, (FloatData, IntegerData, TextData)):
        raise Skip
    if r.random() < 0.5:
        return DataType(ent.workspace, primitive_type=ent.entity_type.primitive_type, name=build.name(r), units=r.choice(["m", "ppm", None]))
    return ent.entity_type.copy(name=build.name(r))


def _type_attrs_live(ent):
    t = ent.entity_type
    out = {"<type> ID": ustr(t.uid), "<type> Name": t.name}
    if getattr(t, "units", None) is not None:
        out["<type> Units"] = t.units
    return out


def _association(r, ent):
    """Another association for a stored data set (between those that do not constrain the number of values differently here)."""
    from geoh5py.data import CommentsData, FilenameData

    if isinstance(ent, (CommentsData, FilenameData)):
        raise Skip
    cur = ent.association.name
    return r.choice([a for a in ("VERTEX", "OBJECT", "Vertex", "object") if a.upper() != cur])


DOMAIN = {
    "association": _association,
    "entity_type": _entity_type,
    "name": lambda r, e: build.name(r),
    **{f: (lambda r, e: r.random() < 0.5) for f in FLAGS},
    "modifiable": lambda r, e: r.random() < 0.5,
    "metadata": lambda r, e: r.choice([{"k": r.randrange(9)}, {"text": r.choice(build.TEXTS)}, {"nested": {"a": 1.5}}, None]),
    "options": lambda r, e: r.choice([{"k": r.randrange(9)}, {"title": "t", "n": 1.5}, {}]),
    "coordinate_reference_system": lambda r, e: {"Code": r.choice(["EPSG:26917", "X"]), "Name": r.choice(["NAD83", "local"])},
    "last_focus": lambda r, e: r.choice(["None", "Object", "Data"]),
    "vertices": _vertices, "cells": _cells, "parts": _parts,
    "current_line_id": lambda r, e: uuid.UUID(int=r.getrandbits(128), version=4),
    "origin": lambda r, e: [fval(r), fval(r), fval(r)],
    "rotation": lambda r, e: r.choice([0.0, 15.0, -30.0, 90.0]),
    "dip": lambda r, e: r.choice([0.0, 10.0, 45.0, 90.0]),
    "vertical": lambda r, e: r.random() < 0.5,
    "u_cell_size": lambda r, e: r.choice([0.5, 1.0, 2.5]), "v_cell_size": lambda r, e: r.choice([0.25, 1.0, 4.0]), "w_cell_size": lambda r, e: r.choice([0.5, 2.0]),
    "u_count": lambda r, e: r.choice([1, 2, 4]), "v_count": lambda r, e: r.choice([1, 2, 4]), "w_count": lambda r, e: r.choice([1, 2, 4]),
    "u_cell_delimiters": _delims, "v_cell_delimiters": _delims, "z_cell_delimiters": _delims,
    "octree_cells": _octree_cells, "layers": _layers, "prisms": _prisms,
    "collar": lambda r, e: [fval(r), fval(r), fval(r)],
    # the setter accepts float or int; after an int a fractional value follows (the stored type must follow the value)
    "cost": lambda r, e: (r.randrange(1, 100) + 0.25) if isinstance(getattr(e, "cost", None), (int, np.integer)) and not isinstance(getattr(e, "cost", None), bool)
    else r.choice([r.randrange(1, 100) / 2.0, r.randrange(1, 100)]),
    "planning": lambda r, e: r.choice(["Default", "Ongoing", "Planned", "Completed", "No status"]),
    "end_of_hole": lambda r, e: (r.randrange(1, 100) + 0.25) if isinstance(getattr(e, "end_of_hole", None), (int, np.integer))
    else r.choice([r.randrange(1, 100) / 2.0, r.randrange(1, 100)]),
    "surveys": _surveys,
    "default_collocation_distance": lambda r, e: r.choice([0.01, 0.5]),
    "values": _values,
    "file_name": lambda r, e: r.choice(["a.dat", "ü.bin"]),
    # types
    "description": lambda r, e: r.choice(["desc", "é", "Entity"]),
    "units": lambda r, e: r.choice(["m", "ppm", None]),
    "hidden": lambda r, e: r.random() < 0.5,
    "mapping": lambda r, e: r.choice(["linear", "equal_area", "logarithmic", "cdf"]),
    "number_of_bins": lambda r, e: r.choice([None, 5, 50]),
    "transparent_no_data": lambda r, e: r.random() < 0.5,
    # (None clears a stored colour map: a documented, valid assignment)
    "color_map": lambda r, e: None if (r.random() < 0.5 and getattr(e, "color_map", None) is not None) else
    np.array([[fval(r), r.randrange(256), r.randrange(256), r.randrange(256), 255] for _ in range(r.randint(1, 3))], dtype=float),
    "value_map": lambda r, e: {0: "Unknown", 1: r.choice(["one", "é"]), r.randrange(2, 9): "x"},
    "allow_delete_content": lambda r, e: r.random() < 0.5, "allow_move_content": lambda r, e: r.random() < 0.5,
    # workspace header
    "contributors": lambda r, e: [r.choice(["ann", "bob", "çé"])],
    "distance_unit": lambda r, e: r.choice(["meter", "feet"]),
    "ga_version": lambda r, e: r.choice(["4.2", "4.5"]),
    "version": lambda r, e: r.choice([2.0, 2.1]),
}
INVALID = {
    "name": None, "metadata": lambda r, e: "not a dict", "origin": lambda r, e: [1.0, 2.0], "vertices": lambda r, e: np.zeros((2, 2)),
    "rotation": lambda r, e: "x", "planning": lambda r, e: "bogus", "mapping": lambda r, e: "bogus", "number_of_bins": lambda r, e: 0,
    "u_count": lambda r, e: 3, "value_map": lambda r, e: {0: "not unknown"}, "coordinate_reference_system": lambda r, e: {"Code": "x"},
    "options": lambda r, e: "text", "values": lambda r, e: "x" if not isinstance(getattr(e, "values", None), str) and e.__class__.__name__ in ("FloatData", "IntegerData") else (_ for _ in ()).throw(Skip()),
}
TYPE_VARYING = {"cost", "end_of_hole"}
COUPLED = {"dip", "vertical", "surveys", "end_of_hole", "metadata", "coordinate_reference_system", "parts", "cells", "values", "vertices", "collar", "octree_cells",
           "u_count", "v_count", "w_count", "value_map", "color_map", "options", "number_of_bins", "units", "entity_type", "association"}
DERIVED = ["centroids", "n_cells", "extent", "locations", "n_vertices", "shape"]

TARGETS = (["obj:" + c for c in build.OBJECT_CLASSES] + ["grp:" + c for c in build.GROUP_CLASSES]
           + ["dat:" + k for k in ("float", "integer", "boolean", "referenced", "text", "textarr", "comments", "filename")]
           + ["typ:data", "typ:group", "typ:object", "ws"])


def setters_of(cls):
    return sorted(n for n in dir(cls) if not n.startswith("_") and isinstance(getattr(cls, n, None), property) and getattr(cls, n).fset is not None)


def reflect_pairs():
    """All (class, attribute-with-setter) pairs of the public model."""
    from geoh5py import data, groups, objects, workspace
    from geoh5py.data import DataType
    from geoh5py.data.color_map import ColorMap
    from geoh5py.data.reference_value_map import ReferenceValueMap
    from geoh5py.groups import GroupType
    from geoh5py.objects import ObjectType

    classes = []
    for mod in (groups, objects, data):
        for _, cls in inspect.getmembers(mod, inspect.isclass):
            if cls.__module__.startswith("geoh5py") and cls not in classes:
                classes.append(cls)
    classes += [c for c in (DataType, GroupType, ObjectType, ColorMap, ReferenceValueMap, workspace.Workspace) if c not in classes]
    return [(cls.__name__, attr) for cls in classes for attr in setters_of(cls)]


class SetterScenario(BaseScenario):
    prop = "C03"

    def __init__(self):
        self.expected_probes = ["assign_on_lazily_loaded", "assign_after_reopen_unread", "rejected_assignment", "two_orders"]
        self.rule = ("one evaluation = one seeded history on one stored instance: 1-6 assignments (valid, and a share invalid) of attributes discovered reflectively "
                     "and present in the domain table, interleaved with GC points, close + re-open (fresh or same object) and observations; after each accepted "
                     "assignment live getter == assigned value (plain attributes), live record == record read by the independent reader from the open file, and "
                     "after the next re-open the same record is read back; derived observables are compared live vs re-opened. distinct = distinct (class, "
                     "attribute sequence, event sequence); non-trivial = >= 2 accepted assignments and >= 1 re-open or GC after an assignment.")
        self.assumptions = ["value generators stay inside each attribute's documented domain", "survey parameters are decided by C20, not here"]
        self._pairs = None

    def pairs(self):
        if self._pairs is None:
            self._pairs = reflect_pairs()
        return self._pairs

    def extra_coverage(self, agg):
        pairs = self.pairs()
        covered = [(c, a) for c, a in pairs if a in DOMAIN]
        uncovered = sorted({a for c, a in pairs if a not in DOMAIN and a not in EXCLUDED and a not in SURVEY_ATTRS})
        return {"reflected_pairs": len(pairs), "pairs_with_domain_entry": len(covered),
                "attributes_excluded": sorted(EXCLUDED), "attributes_decided_by_C20": sorted(SURVEY_ATTRS), "uncovered_attributes": uncovered,
                "pair_matrix": {k: v for k, v in sorted(agg["probes"].items()) if k.startswith("pair:")}}

    def make_config(self, rng):
        return {"version": rng.choices([2.1, 2.0], [3, 1])[0], "gc": rng.choices(["none", "op", "io"], [3, 4, 3])[0], "gc_density": rng.choice([0.2, 0.5]),
                "h5repack": "absent", "target": rng.choice(TARGETS), "lazy": rng.random() < 0.5, "n_ops": rng.choice([2, 3, 4, 6, 8])}

    def simplify_config(self, cfg):
        out = []
        if cfg.get("gc") != "none":
            out.append({**cfg, "gc": "none"})
        if cfg.get("lazy"):
            out.append({**cfg, "lazy": False})
        return out

    # ------------------------------------------------------------------------------------------
    def build_target(self, ws, cfg, rng):
        """Create and store the instance; returns (how to find it again, attribute owner getter)."""
        from geoh5py import groups, objects
        from geoh5py.groups import ContainerGroup

        kind, _, what = cfg["target"].partition(":")
        holder = ContainerGroup.create(ws, name="holder")
        if kind == "ws":
            return ("ws", None)
        if kind == "grp":
            ent = getattr(groups, what).create(ws, name="target", parent=holder)
            return ("entity", ent.uid)
        if kind == "obj":
            args = build.gen_object_args(rng, what)
            kwargs = build.object_kwargs(args)
            if what == "Drillhole" and rng.random() < 0.5:
                kwargs.update({"cost": rng.randrange(1, 50), "end_of_hole": rng.randrange(50, 200)})     # whole numbers given as int at creation
            ent = getattr(objects, what).create(ws, parent=holder, **kwargs)
            return ("entity", ent.uid)
        pts = objects.Points.create(ws, parent=holder, vertices=np.array([[fval(rng), fval(rng), fval(rng)] for _ in range(4)]), name="pts")
        if kind == "dat":
            if what == "comments":
                pts.add_comment("first", author="me")
                return ("entity", pts.comments.uid)
            if what == "filename":
                return ("entity", pts.add_file(b"abc", name="f.dat").uid)
            assoc = "OBJECT" if what == "text" else "VERTEX"
            n = 1 if what == "text" else 4
            data = pts.add_data({"d": build.data_spec(what, build.gen_values(rng, what, n), assoc)})
            return ("entity", data.uid)
        if what == "data":
            data = pts.add_data({"d": build.data_spec("referenced", [1, 2, 1, 0], "VERTEX")})
            return ("type", data.uid)
        if what == "group":
            return ("type", holder.uid)
        return ("type", pts.uid)

    @staticmethod
    def locate(ws, ref):
        if ref[0] == "ws":
            return ws
        ent = ws.get_entity(ref[1])[0]
        if ent is None:
            raise Violation("C03", "lookup_lost", "the target entity cannot be found", {})
        return ent.entity_type if ref[0] == "type" else ent

    # ---- views
    def live_view(self, ws, ref, owner):
        from geoh5py.shared import EntityType

        if ref[0] == "ws":
            return {"attrs": {h5: snapshot.canon(getattr(ws, py)) for h5, py in ws.attribute_map.items()}}
        if isinstance(owner, EntityType):
            out = {"attrs": {}}
            for h5, py in owner.attribute_map.items():
                val = getattr(owner, py, None)
                if val is not None:
                    out["attrs"][h5] = snapshot.canon(val.name.upper() if hasattr(val, "name") and h5 == "Primitive type" else val)
            # assignable type attributes of the format document that the class's own attribute map does not list
            for h5, py in (("Units", "units"),):
                if h5 not in out["attrs"] and isinstance(getattr(type(owner), py, None), property) and getattr(owner, py) is not None:
                    out["attrs"][h5] = snapshot.canon(getattr(owner, py))
            cmap = getattr(owner, "color_map", None)
            out["color_map"] = snapshot.canon(cmap.values.T) if cmap is not None and cmap.values is not None and len(cmap) else None
            vmap = getattr(owner, "value_map", None)
            out["value_map"] = {str(k): v for k, v in vmap.map.items()} if vmap is not None else None
            return out
        rec = snapshot.record(owner)
        if rec["kind"] == "data":
            rec["attrs"].update(_type_attrs_live(owner))      # which type the data set points at is part of its stored state
        return rec

    def raw_view(self, ws, ref, owner):
        from geoh5py.shared import EntityType

        raw = rawgeoh5.read(ws.geoh5)
        if ref[0] == "ws":
            return {"attrs": dict(raw["attrs"])}
        if isinstance(owner, EntityType):
            for tkind, nodes in raw["types"].items():
                node = nodes.get(ustr(owner.uid))
                if node is not None:
                    attrs = dict(node["attrs"])
                    if "Primitive type" in attrs:
                        attrs["Primitive type"] = attrs["Primitive type"].upper().replace("-", "_")
                    cm = node["datasets"].get("Color map")
                    vm = node["datasets"].get("Value map")
                    return {"attrs": attrs, "color_map": cm["value"] if cm else None,
                            "value_map": {str(k): v for k, v in vm["value"]} if vm else None}
            return None
        tree = rawgeoh5.decode_tree(raw)
        rec = tree.get(ustr(owner.uid))
        rec = compare.normalise_raw(rec) if rec else None
        if rec and rec["kind"] == "data":
            node = raw["types"].get("Data types", {}).get(rec.get("type_uid")) or {"attrs": {}}
            rec["attrs"]["<type> ID"] = rec.get("type_uid")
            for key in ("Name", "Units"):
                if node["attrs"].get(key) is not None:
                    rec["attrs"]["<type> " + key] = node["attrs"][key]
        return rec

    def diff_views(self, live, raw, la="LIVE", lb="STORED"):
        if raw is None:
            return ["the entity is not in the file"]
        if "kind" in live:
            if live.get("kind") == "data" and isinstance(live.get("values"), list) and isinstance(raw.get("values"), list):
                # the format allows arrays shorter than the element count (the missing tail is no-data); whether arrays are padded
                # is C07's question -- here trailing no-data entries are not a difference
                def strip(vals):
                    vals = list(vals)
                    while vals and (vals[-1] in ("nan", "", -2147483648, 0, None) or vals[-1] != vals[-1]):
                        vals.pop()
                    return vals
                if strip(live["values"]) == strip(raw["values"]):
                    raw = {**raw, "values": live["values"]}
            return compare.diff_record(live, raw, la, lb, fields=("name", "flags", "values", "metadata", "attrs", "arrays", "pgs"))
        diffs = []
        for key in sorted(set(live["attrs"]) | set(raw["attrs"])):
            if key == "ID":
                continue
            if not compare.attr_same(live["attrs"].get(key), raw["attrs"].get(key)):
                diffs.append(f"type attr[{key}]: {la}={live['attrs'].get(key)!r} {lb}={raw['attrs'].get(key)!r}")
        for key in ("color_map", "value_map"):
            if key in live and not compare.same(compare.flat(live.get(key)) if key == "color_map" and live.get(key) else live.get(key),
                                                compare.flat(raw.get(key)) if key == "color_map" and raw.get(key) else raw.get(key)):
                diffs.append(f"type {key}: {la}={compare._short(live.get(key))} {lb}={compare._short(raw.get(key))}")
        return diffs

    # ------------------------------------------------------------------------------------------
    def execute(self, seed, program=None):
        from geoh5py import Workspace

        rng = random.Random(H(seed, "program"))
        if program is None:
            cfg = self.make_config(rng)
            ops = None
        else:
            cfg, ops = program["config"], program["ops"]
        sim = Sim(seed, cfg)
        executed, trace = [], []
        status, violation, suspect = "ok", None, None
        n_ok = n_fault = 0
        with sim.running():
            try:
                path = sim.path("s.geoh5")
                ws = Workspace.create(path, version=cfg["version"], ga_version="4.2", contributors=["sim"])
                brng = random.Random(H(seed, "build"))
                sim.begin_op(H(seed, "build-ids"))
                ref = self.build_target(ws, cfg, brng)
                sim.end_op()
                if cfg.get("lazy"):
                    ws.close()
                    ws = Workspace(path, mode="r+")
                    sim.probe("assign_on_lazily_loaded")
                owner = self.locate(ws, ref)
                cls_name = type(owner).__name__
                attrs = [a for a in setters_of(type(owner)) if a in DOMAIN and not (a == "values" and cls_name in ("UnknownData", "BlobData"))]
                if ref[0] == "entity" and snapshot.kind_of(owner) == "data":
                    # metadata / coordinate reference system are attributes of groups and objects in the format; a comments
                    # entity is recognised by its name; the file name of file data is tied to its blob
                    attrs = [a for a in attrs if a not in ("metadata", "coordinate_reference_system", "file_name")]
                    if cls_name == "CommentsData":
                        attrs = [a for a in attrs if a != "name"]
                expected = None       # live view adopted after the last accepted assignment
                pending_reopen_check = False
                n_ops = len(ops) if ops is not None else cfg["n_ops"]
                seen_attrs = []
                for i in range(n_ops):
                    if ops is not None:
                        op = ops[i]
                    else:
                        kind = rng.choices(["set", "set_invalid", "gc", "reopen", "reopen_same", "observe"], [10, 2, 2, 3, 1, 2])[0]
                        # (a third of the assignments go to an attribute assigned before in this run: second values, clearing values)
                        again = [a for a in seen_attrs if a in attrs]
                        attr = (rng.choice(again) if again and rng.random() < 0.35 else rng.choice(attrs)) if attrs else None
                        op = {"id": i, "k": kind, "sub": rng.getrandbits(64), "attr": attr, "check_after_reopen": rng.random() < 0.5}
                    executed.append(op)
                    kind = op["k"]
                    sim.begin_op(op["sub"])
                    try:
                        if kind in ("set", "set_invalid") and op["attr"] is not None and op["attr"] in attrs:
                            outcome = self.assign(sim, ws, ref, owner, op, kind == "set_invalid", expected, pending_reopen_check)
                            if outcome == "accepted_invalid" and expected is not None:
                                # a value from the "invalid" table that this class accepts after all: an ordinary assignment whose
                                # result is adopted (whether it should have been refused is an input-domain question, not C03's)
                                expected = self.live_view(ws, ref, owner)
                            if outcome == "ok":
                                n_ok += 1
                                expected = self.live_view(ws, ref, owner)
                                pending_reopen_check = False
                                if op["attr"] in seen_attrs and seen_attrs[-1] != op["attr"]:
                                    sim.probe("two_orders")
                                seen_attrs.append(op["attr"])
                                sim.probe(f"pair:{cls_name}.{op['attr']}")
                        elif kind == "gc":
                            sim.collect("event")
                            outcome = "ok"
                            n_fault += 1 if n_ok else 0
                        elif kind in ("reopen", "reopen_same"):
                            derived = self.derived(owner) if ref[0] == "entity" else None
                            del owner
                            ws.close()
                            try:
                                if kind == "reopen":
                                    ws = Workspace(path, mode="r+")
                                else:
                                    ws.open()
                            except Exception as err:  # pylint: disable=broad-except
                                raise Violation("C03", "reopen_fails", f"{cls_name}: after assigning {seen_attrs[-3:]} the file cannot be opened: {type(err).__name__}: {str(err)[:120]}",
                                                {"cls": cls_name, "exc": type(err).__name__, "last": seen_attrs[-1] if seen_attrs else None}) from None
                            sim.fault("ev:" + kind)
                            n_fault += 1 if n_ok else 0
                            owner = self.locate(ws, ref)
                            outcome = "ok"
                            if expected is not None and op.get("check_after_reopen", True):
                                got = self.live_view(ws, ref, owner)
                                diffs = self.diff_views(expected, got, "BEFORE-CLOSE", "REOPENED")
                                sim.oracle("reopen_equal")
                                if diffs:
                                    raise Violation("C03", "lost_on_reopen", f"{cls_name}: {diffs[0]}", {"cls": cls_name, "field": _field(diffs[0]), "last": seen_attrs[-1] if seen_attrs else None})
                                if derived is not None:
                                    now = self.derived(owner)
                                    for name, val in derived.items():
                                        if not _same_loose(val, now.get(name)):
                                            raise Violation("C03", "stale_derived", f"{cls_name}.{name} differs live vs re-opened after assigning {seen_attrs[-3:]}: "
                                                            f"{compare._short(val)} vs {compare._short(now.get(name))}", {"cls": cls_name, "derived": name})
                            elif expected is not None:
                                pending_reopen_check = True
                                sim.probe("assign_after_reopen_unread")
                        elif kind == "observe":
                            got = self.live_view(ws, ref, owner)
                            outcome = "ok"
                            if expected is not None:
                                diffs = self.diff_views(expected, got, "EXPECTED", "LIVE")
                                if diffs:
                                    raise Violation("C03", "live_drift", f"{cls_name}: {diffs[0]}", {"cls": cls_name, "field": _field(diffs[0])})
                        else:
                            outcome = "skipped"
                    finally:
                        sim.end_op()
                    sim.drain_warnings()
                    trace.append(f"{kind}:{op.get('attr') if kind.startswith('set') else ''}:{outcome}")
                    sim.record("op", op["id"], kind, op.get("attr"), outcome)
                    if sim.gc_mode == "op" and random.Random(H(op["sub"], "gcop")).random() < sim.gc_density:
                        sim.collect("op")
                # final boundary: everything assigned is read back by a fresh workspace
                if expected is not None:
                    del owner
                    ws.close()
                    try:
                        ws = Workspace(path, mode="r")
                    except Exception as err:  # pylint: disable=broad-except
                        raise Violation("C03", "reopen_fails", f"{cls_name}: after assigning {seen_attrs[-3:]} the file cannot be opened: {type(err).__name__}: {str(err)[:120]}",
                                        {"cls": cls_name, "exc": type(err).__name__, "last": seen_attrs[-1] if seen_attrs else None}) from None
                    owner = self.locate(ws, ref)
                    got = self.live_view(ws, ref, owner)
                    diffs = self.diff_views(expected, got, "BEFORE-CLOSE", "REOPENED")
                    sim.oracle("reopen_equal")
                    if diffs:
                        raise Violation("C03", "lost_on_reopen", f"{cls_name}: {diffs[0]}", {"cls": cls_name, "field": _field(diffs[0]), "last": seen_attrs[-1] if seen_attrs else None})
                del owner
                ws.close()
            except Violation as vio:
                violation = {"prop": vio.prop, "tag": vio.tag, "detail": vio.detail, "discr": vio.discr, "event": sim.events}
                sim.record("violation", vio.prop, vio.tag, vio.discr)
                status = "violation" if vio.prop == self.prop else "foreign"
            stats = {"events": sim.events, "ops": len(executed), "faults": dict(sim.faults), "probes": dict(sim.probes), "oracle_evals": dict(sim.oracle_evals),
                     "trace_hash": rawgeoh5.sha([cfg["target"], trace]), "nontrivial": n_ok >= 2 and n_fault >= 1, "states": [], "clock_lo": sim.clock.lo,
                     "clock_hi": sim.clock.hi, "cell": cfg["target"].split(":")[0]}
            digest = sim.digest()
            try:
                if "ws" in locals() and ws._geoh5:  # pylint: disable=protected-access
                    ws.close()
            except Exception:  # pylint: disable=broad-except
                pass
        return {"status": status, "violation": violation, "suspect": suspect, "program": {"config": cfg, "ops": executed}, "stats": stats, "digest": digest}

    @staticmethod
    def derived(owner):
        out = {}
        for name in DERIVED:
            if isinstance(getattr(type(owner), name, None), property):
                try:
                    out[name] = snapshot.canon(getattr(owner, name))
                except Exception as err:  # pylint: disable=broad-except
                    out[name] = "raises:" + type(err).__name__
        return out

    def assign(self, sim, ws, ref, owner, op, invalid, expected, pending):
        attr = op["attr"]
        cls_name = type(owner).__name__
        r = random.Random(H(op["sub"], "value"))
        before_live = self.live_view(ws, ref, owner) if (invalid or not pending) else None
        try:
            gen = INVALID.get(attr) if invalid else DOMAIN[attr]
            if gen is None:
                return "skipped"
            if not invalid and attr in TYPE_VARYING and r.random() < 0.5:
                # the attribute takes int or float: an int first, so that the judged assignment changes the stored number type
                try:
                    setattr(owner, attr, r.randrange(1, 100))
                    sim.probe("number_type_changed")
                except Exception:  # pylint: disable=broad-except
                    pass
            value = gen(r, owner)
        except Skip:
            return "skipped"
        except Exception:  # pylint: disable=broad-except   (generator could not build a value for this instance)
            return "skipped"
        if invalid:
            before_raw = self.raw_view(ws, ref, owner)
        elif isinstance(value, np.ndarray) and value.dtype.names is None and r.random() < 0.3:
            # read-modify-assign idiom: the array handed out by the getter is edited in place and assigned back
            try:
                cur = getattr(owner, attr)
            except Exception:  # pylint: disable=broad-except
                cur = None
            if isinstance(cur, np.ndarray) and cur.shape == value.shape and cur.dtype.kind == value.dtype.kind and cur.flags.writeable and not np.array_equal(cur, value):
                cur[...] = value
                value = cur
                sim.probe("edited_in_place_then_assigned")
        try:
            setattr(owner, attr, value)
            raised = None
        except Exception as err:  # pylint: disable=broad-except
            raised = type(err).__name__
        if invalid:
            sim.probe("rejected_assignment")
            if raised is None:
                return "accepted_invalid"     # what is rejected is C08/C15's input-domain question; not judged here
            after_live = self.live_view(ws, ref, owner)
            diffs = self.diff_views(before_live, after_live, "BEFORE", "AFTER-REJECTION")
            if diffs:
                raise Violation("C03", "rejection_changed_live", f"{cls_name}.{attr} = <invalid> raised {raised} but changed the live value: {diffs[0]}",
                                {"cls": cls_name, "attr": attr})
            diffs = self.diff_views(before_raw, self.raw_view(ws, ref, owner), "BEFORE", "AFTER-REJECTION") if before_raw else []
            if diffs:
                raise Violation("C03", "rejection_changed_file", f"{cls_name}.{attr} = <invalid> raised {raised} but changed the stored value: {diffs[0]}",
                                {"cls": cls_name, "attr": attr})
            return "refused"
        if raised is not None:
            return "raised:" + raised      # a generated value outside the setter's domain: not an accepted assignment
        # (a) plain attributes: the live getter returns what was assigned
        sim.oracle("live_equals_assigned")
        if attr not in COUPLED:
            got = snapshot.canon(getattr(owner, attr))
            want = snapshot.canon(value)
            if not _same_loose(got, want):
                raise Violation("C03", "live_not_assigned", f"{cls_name}.{attr}: assigned {compare._short(want)}, getter returns {compare._short(got)}",
                                {"cls": cls_name, "attr": attr})
        # (b) the stored value (independent reader, open handle) equals the live value
        # (the file is read FIRST: some getters recompute and write what a setter left out, which would heal the file before it is looked at)
        raw = self.raw_view(ws, ref, owner)
        live = self.live_view(ws, ref, owner)
        sim.oracle("stored_equals_live")
        diffs = self.diff_views(live, raw)
        if diffs:
            raise Violation("C03", "stored_differs", f"after {cls_name}.{attr} = {compare._short(snapshot.canon(value))}: {diffs[0]}",
                            {"cls": cls_name, "attr": attr, "field": _field(diffs[0])})
        # (c) an assignment made on a re-opened, not yet read entity must not lose what was stored before
        if pending and expected is not None and "kind" in live and attr == "metadata" and isinstance(value, dict):
            want = dict(expected.get("metadata") or {})
            want.update(snapshot.canon(value))
            if not compare.same(live.get("metadata") or None, want or None):
                raise Violation("C03", "merge_lost_stored", f"{cls_name}.metadata assigned on a re-opened entity: {compare._short(live.get('metadata'))}, "
                                f"expected the stored keys merged: {compare._short(want)}", {"cls": cls_name, "attr": attr})
        if pending and expected is not None:
            other = self.diff_views(_patched(expected, live, attr, getattr(owner, "_attribute_map", None)), live, "BEFORE-CLOSE", "LIVE")
            if other:
                raise Violation("C03", "lost_on_reopen", f"{cls_name}: {other[0]} (seen after assigning {attr} on the re-opened entity)",
                                {"cls": cls_name, "field": _field(other[0]), "last": attr})
        return "ok"


RELATED = {
    "dip": ["Vertical", "Dip"], "vertical": ["Dip", "Vertical"], "surveys": ["End of hole", "surveys", "trace"], "collar": ["Collar", "trace"],
    "coordinate_reference_system": ["metadata"], "parts": ["cells"], "cells": ["cells"], "vertices": ["vertices", "cells"], "name": ["name"], "metadata": ["metadata"],
    "entity_type": ["<type> ID", "<type> Name", "<type> Units", "Primitive type"],
    "values": ["values"], "u_count": ["NU", "U Count", "octree_cells"], "v_count": ["NV", "V Count", "octree_cells"], "w_count": ["NW", "octree_cells"],
}


def _patched(expected: dict, live: dict, attr: str, attr_map: dict | None = None) -> dict:
    """`expected` with every field the assignment of `attr` may legitimately move taken from `live`."""
    import copy

    from geoh5py.shared.utils import KEY_MAP

    out = copy.deepcopy(expected)
    if attr in FLAGS and "flags" in out:
        out["flags"][attr] = live["flags"][attr]
    if attr == "name" and "name" in out:
        out["name"] = live["name"]
    if attr in ("metadata", "coordinate_reference_system") and "metadata" in out:
        out["metadata"] = live.get("metadata")
    if attr == "values":
        out["values"] = live.get("values")
    keys = set(RELATED.get(attr, [])) | {attr, KEY_MAP.get(attr, attr)}
    keys |= {stored for stored, py in (attr_map or {}).items() if py == attr}     # e.g. 'Current line property ID' -> current_line_id
    for section in ("attrs", "arrays"):
        for key in set(out.get(section, {})) | set(live.get(section, {})):
            if any(k.lower().replace("_", " ") == key.lower().replace("_", " ") for k in keys) or key.lower().replace(" ", "_") == attr:
                if key in live.get(section, {}):
                    out.setdefault(section, {})[key] = live[section][key]
                else:
                    out.get(section, {}).pop(key, None)
    for key in ("color_map", "value_map"):
        if attr == key and key in live:
            out[key] = live[key]
    if "attrs" in out and "kind" not in out:
        # type / header views: the attribute map name of the python attribute
        for key in list(out["attrs"]):
            if key.lower().replace(" ", "_") in (attr, attr.replace("content", "contents")):
                out["attrs"][key] = live["attrs"].get(key)
    return out


def _touches(diff: str, attr: str) -> bool:
    keys = RELATED.get(attr, []) + [attr]
    from geoh5py.shared.utils import KEY_MAP

    keys.append(KEY_MAP.get(attr, attr))
    low = diff.lower()
    return any(k.lower().replace("_", " ") in low.replace("_", " ") for k in keys)


def _same_loose(a, b) -> bool:
    if isinstance(a, (list, tuple)) or isinstance(b, (list, tuple)):
        return compare.same(compare.flat(a) if a is not None else None, compare.flat(b) if b is not None else None)
    return compare.same(a, b)


def _field(diff: str) -> str:
    parts = diff.split(" ")
    for p in parts:
        if p.startswith(("attr[", "array[")):
            return p.rstrip(":")
    return parts[1].rstrip(":") if len(parts) > 1 else "?"
