"""
The survey machine (C20): linked receiver / transmitter / base-station / electrode pairs.  Link from either
side, edit shared parameters through either side, copy (plain, masked, cross-workspace, copies of copies),
re-open, GC, dropped references.  After every event both partners carry both identifiers and the same
metadata, live and stored (independent reader); after re-opening each resolves its partner; a copy is linked
to the copied partner, never to the original, and the originals are unchanged.
"""

from __future__ import annotations

import json
import random

import numpy as np

from . import build, compare, rawgeoh5, snapshot
from .kernel import H, Sim, Violation
from .scenarios import BaseScenario
from .snapshot import ustr

# (receiver class, partner class, attr on receiver naming the partner, attr on partner naming the receiver, family)
PAIRS = {
    "airborne_tem": ("AirborneTEMReceivers", "AirborneTEMTransmitters", "transmitters", "receivers", "em"),
    "airborne_fem": ("AirborneFEMReceivers", "AirborneFEMTransmitters", "transmitters", "receivers", "em"),
    "moving_tem": ("MovingLoopGroundTEMReceivers", "MovingLoopGroundTEMTransmitters", "transmitters", "receivers", "em"),
    "moving_fem": ("MovingLoopGroundFEMReceivers", "MovingLoopGroundFEMTransmitters", "transmitters", "receivers", "em"),
    "large_tem": ("LargeLoopGroundTEMReceivers", "LargeLoopGroundTEMTransmitters", "transmitters", "receivers", "large"),
    "large_fem": ("LargeLoopGroundFEMReceivers", "LargeLoopGroundFEMTransmitters", "transmitters", "receivers", "large"),
    "tipper": ("TipperReceivers", "TipperBaseStations", "base_stations", "receivers", "tipper"),
    "mt": ("MTReceivers", None, None, None, "single"),
    "dc": ("PotentialElectrode", "CurrentElectrode", "current_electrodes", "potential_electrodes", "dc"),
}
KINDS = {"link": 6, "bad_link": 3, "edit": 12, "components": 2, "copy": 6, "copy_holder": 1, "reopen": 4, "reopen_same": 1, "gc": 3, "drop": 2, "observe": 3}
N_VERT = 6


class SurveyScenario(BaseScenario):
    prop = "C20"

    def __init__(self, prop="C20"):
        self.prop = prop
        self.expected_probes = ["link_from_receivers", "link_from_partner", "edit_from_receivers", "edit_from_partner", "copy_plain", "copy_masked", "copy_cross",
                                "copy_of_copy", "copy_from_partner_side", "copy_masked_large_loop", "link_at_creation", "bad_link_refused", "reopen", "partner_resolved_after_reopen"] + [f"pair:{p}" for p in PAIRS]
        self.rule = ("one evaluation = one seeded history on one survey class pair (airborne / moving-loop / large-loop TEM and FEM, tipper, MT, direct current): link "
                     "from either side, edits of shared parameters (channels, unit, input type, loop radius, offsets and angles, waveform, timing mark, component data) "
                     "through either side, copies (plain, masked, cross-workspace, copies of copies, from either side), re-open, GC points, dropped references. After "
                     "every event both partners' metadata (live) carry both identifiers and are equal, the stored Metadata of both nodes (independent reader) equal "
                     "the live one, after re-open each partner getter resolves the other; copies are linked to copied partners and originals are unchanged. "
                     "distinct = distinct abstract trace; non-trivial = >= 2 edits/copies and >= 1 re-open / GC after one of them.")
        self.assumptions = ["survey parameter domains follow each class's default_units / default_input_types", "h5py/HDF5/numpy and sim/rawgeoh5.py are trusted"]

    def make_config(self, rng):
        return {"pair": rng.choice(sorted(PAIRS)), "two_ws": rng.random() < 0.5, "gc": rng.choices(["none", "op", "io"], [3, 4, 3])[0],
                "gc_density": rng.choice([0.2, 0.5]), "h5repack": "absent", "n_ops": rng.choice([4, 8, 12, 16]), "link_from": rng.choice(["rx", "partner"]),
                "hold": rng.random() < 0.5, "peek": rng.random() < 0.5, "link_at_creation": rng.choice([None, None, None, "rx", "px"])}

    def simplify_config(self, cfg):
        out = []
        if cfg.get("gc") != "none":
            out.append({**cfg, "gc": "none"})
        if cfg.get("two_ws"):
            out.append({**cfg, "two_ws": False})
        return out

    # ------------------------------------------------------------------------------------------
    def build(self, ws, cfg, r):
        from geoh5py import objects

        rx_cls, px_cls, rx_attr, px_attr, family = PAIRS[cfg["pair"]]
        xs = np.arange(N_VERT, dtype=float)
        verts = np.c_[xs * 10.0, np.array([build.fval(r) for _ in range(N_VERT)]), np.zeros(N_VERT)]
        out = {}
        if family == "large":
            rx = getattr(objects, rx_cls).create(ws, vertices=verts, name="rx")
            loops = np.array([[0.0, 0, 0], [0, 10, 0], [10, 10, 0], [10, 0, 0], [100.0, 0, 0], [100, 10, 0], [110, 10, 0], [110, 0, 0]])
            cells = np.array([[0, 1], [1, 2], [2, 3], [3, 0], [4, 5], [5, 6], [6, 7], [7, 4]], dtype="uint32")
            px = getattr(objects, px_cls).create(ws, vertices=loops, cells=cells, name="px")
            px.tx_id_property = px.parts + 1
            rx.tx_id_property = np.array([1, 1, 1, 2, 2, 2])
        elif family == "dc":
            parts = np.array([0, 0, 0, 1, 1, 1])
            px = getattr(objects, px_cls).create(ws, vertices=verts, parts=parts, name="px")
            px.add_default_ab_cell_id()
            rx = getattr(objects, rx_cls).create(ws, vertices=verts, cells=np.array([[0, 1], [1, 2], [3, 4], [4, 5]], dtype="uint32"), name="rx")
            rx.ab_cell_id = np.array([1, 2, 3, 4], dtype="int32")
        elif px_cls and cfg.get("link_at_creation") == "rx":
            # the link is given as a creation keyword: made while the new entity is not yet on file
            px = getattr(objects, px_cls).create(ws, vertices=verts + 1.0, name="px")
            rx = getattr(objects, rx_cls).create(ws, vertices=verts, name="rx", **{rx_attr: px})
            out["linked"] = True
        elif px_cls and cfg.get("link_at_creation") == "px":
            rx = getattr(objects, rx_cls).create(ws, vertices=verts, name="rx")
            px = getattr(objects, px_cls).create(ws, vertices=verts + 1.0, name="px", **{px_attr: rx})
            out["linked"] = True
        else:
            rx = getattr(objects, rx_cls).create(ws, vertices=verts, name="rx")
            px = getattr(objects, px_cls).create(ws, vertices=verts + 1.0, name="px") if px_cls else None
        out["rx"] = rx.uid
        out["px"] = px.uid if px is not None else None
        return out

    def do_copy_holder(self, sim, wss, st, cfg, r, path):
        """A group holding one linked pair (generic families) is copied: the copy holds one receivers and one partner object."""
        from geoh5py import objects
        from geoh5py.groups import ContainerGroup

        rx_cls, px_cls, rx_attr, px_attr, family = PAIRS[cfg["pair"]]
        if family in ("large", "dc") or not px_cls:
            return "skipped"
        ws = wss["A"]
        n = len(st.setdefault("holders", []))
        if n >= 2:
            return "skipped"
        verts = np.c_[np.arange(N_VERT, dtype=float), np.zeros(N_VERT), np.zeros(N_VERT)]
        grp = ContainerGroup.create(ws, name=f"holder{n}")
        px = getattr(objects, px_cls).create(ws, vertices=verts + 1.0, name=f"hpx{n}", parent=grp)
        rx = getattr(objects, rx_cls).create(ws, vertices=verts, name=f"hrx{n}", parent=grp, **{rx_attr: px})
        del rx, px
        st["holders"].append(str(grp.uid))
        target = wss["B"] if "B" in wss and wss["B"] is not None and r.random() < 0.5 else None
        try:
            new = grp.copy(parent=target) if target is not None else grp.copy()
        except Exception as err:  # pylint: disable=broad-except
            raise Violation("C12", "copy_raises", f"copying a group that holds a linked {cfg['pair']} pair raised {type(err).__name__}: {str(err)[:100]}",
                            {"cls": "ContainerGroup", "exc": type(err).__name__, "pair": cfg["pair"]}) from None
        kids = sorted(type(c).__name__ for c in new.children)
        del new, grp
        sim.probe("copy_group_holding_pair")
        if kids != sorted([rx_cls, px_cls]):
            raise Violation("C12", "copy_differs", f"the copy of a group holding one linked {cfg['pair']} pair holds {kids}", {"cls": "ContainerGroup", "field": "children", "pair_in_group": True})
        return "ok"

    @staticmethod
    def get(ws, uid):
        ent = ws.get_entity(uid)[0]
        if ent is None:
            raise Violation("C20", "lookup_lost", f"survey entity {uid} not found", {})
        return ent

    # ---- the oracle
    def check_pair(self, sim, ws, rx_uid, px_uid, cfg, where, linked, expect=None):
        """Both partners carry both identifiers and equal metadata, live and stored; getters resolve each other."""
        sim.oracle("pair_consistent")
        _, _, rx_attr, px_attr, family = PAIRS[cfg["pair"]]
        discr = {"pair": cfg["pair"], "where": where.split(":")[0]}
        rx = self.get(ws, rx_uid)
        live_rx = snapshot.canon(rx.metadata)
        raw = rawgeoh5.read(ws.geoh5)
        stored_rx = self.stored_meta(raw, rx_uid)
        if not compare.same(_strip(live_rx), _strip(stored_rx)):
            raise Violation("C20", "stored_differs", f"{where}: receivers' stored metadata {compare._short(stored_rx, 200)} differs from live {compare._short(live_rx, 200)}",
                            {**discr, "side": "rx"})
        comps = (expect or {}).get("_components")
        if comps:
            listed = (live_rx.get("EM Dataset") or {}).get("Property groups") or []
            if list(listed) != list(comps):
                if (expect or {}).get("_copied_from"):
                    raise Violation("C12", "copy_differs", f"{where}: the copied receivers' metadata lists components {listed}; the source lists {comps}",
                                    {"cls": "survey:" + cfg["pair"], "field": "components", "from": expect["_copied_from"]})
                raise Violation("C20", "components_lost", f"{where}: the receivers' metadata lists components {listed}, expected {comps}", {**discr, "side": "rx"})
        fresh_copy = (expect or {}).get("_copied_from") if not (expect or {}).get("_edited") else None
        expect = {k: v for k, v in (expect or {}).items() if not k.startswith("_")}
        if expect:
            for key, val in expect.items():
                got = snapshot.canon(getattr(rx, key))
                if not _loose(got, val):
                    if fresh_copy:
                        # a copy that was not edited since: a parameter differing from the source's is C12's "a copy equals its source"
                        raise Violation("C12", "copy_differs", f"{where}: the copied receivers report {key} = {compare._short(got)}, the source {compare._short(val)}",
                                        {"cls": "survey:" + cfg["pair"], "field": "parameter", "attr": key})
                    raise Violation("C20", "edit_lost", f"{where}: receivers.{key} = {compare._short(got)} expected {compare._short(val)}", {**discr, "side": "rx", "attr": key})
        if px_uid is None or not linked:
            del rx
            return
        loops = getattr(self, "_loops_expected", {}).get((str(ws.h5file), rx_uid, px_uid))
        if loops is not None and where.split(":")[0] in ("final", "reopen", "reopen_same"):
            # large-loop copies: what the copy referred to when it was made is what a later reader finds
            sim.oracle("large_loop_copy_stored")
            now = self.loops(ws, {"rx": rx_uid, "px": px_uid})
            got = sorted([list(k), sorted(map(list, v))] for k, v in now["by_receiver"].items())
            if got != sorted(loops):
                raise Violation("C20", "copy_loop_mismatch", f"{where}: after re-opening the copied receivers refer to other loops than when the copy was made "
                                f"({compare._short(got, 120)} vs {compare._short(sorted(loops), 120)})", {**discr, "what": "stored_loops"})
        px = self.get(ws, px_uid)
        live_px = snapshot.canon(px.metadata)
        if not compare.same(_strip(live_rx, True), _strip(live_px, True)):
            raise Violation("C20", "partners_differ_live", f"{where}: metadata differ: receivers {compare._short(live_rx, 160)} partner {compare._short(live_px, 160)}", discr)
        ids = json.dumps(live_rx)
        if ustr(rx_uid) not in ids or ustr(px_uid) not in ids:
            raise Violation("C20", "ids_missing", f"{where}: metadata does not carry both identifiers: {compare._short(live_rx, 200)}", discr)
        stored_px = self.stored_meta(raw, px_uid)
        if not compare.same(_strip(live_px, True), _strip(stored_px, True)):
            raise Violation("C20", "stored_differs", f"{where}: partner's stored metadata {compare._short(stored_px, 200)} differs from live {compare._short(live_px, 200)}",
                            {**discr, "side": "partner"})
        # partner getters resolve to each other (reading them fills the entities' partner caches, so some runs only look
        # at the very end, on the re-opened file: an oracle that always looks hides what depends on an empty cache)
        if not (cfg.get("peek", True) or where.startswith("final")):
            del rx, px
            return
        got_px = getattr(rx, rx_attr)
        got_rx = getattr(px, px_attr)
        if got_px is None or got_px.uid != px_uid:
            raise Violation("C20", "partner_unresolved", f"{where}: receivers.{rx_attr} resolves to {getattr(got_px, 'uid', None)} instead of {px_uid}", {**discr, "side": "rx"})
        if got_rx is None or got_rx.uid != rx_uid:
            raise Violation("C20", "partner_unresolved", f"{where}: partner.{px_attr} resolves to {getattr(got_rx, 'uid', None)} instead of {rx_uid}", {**discr, "side": "partner"})
        if expect:
            for key, val in expect.items():
                if isinstance(getattr(type(px), key, None), property):
                    got = snapshot.canon(getattr(px, key))
                    if not _loose(got, val):
                        raise Violation("C20", "edit_lost", f"{where}: partner.{key} = {compare._short(got)} expected {compare._short(val)}", {**discr, "side": "partner", "attr": key})
        del rx, px, got_px, got_rx

    def stored_all(self, st, ws, other):
        """(pair index, side) -> stored Metadata of every tracked survey entity (independent reader)."""
        out = {}
        raws = {}
        for i, pr in enumerate(st["pairs"]):
            wsx = ws if pr["ws"] == "A" else other
            if wsx is None or not wsx._geoh5:  # pylint: disable=protected-access
                continue
            if pr["ws"] not in raws:
                raws[pr["ws"]] = rawgeoh5.read(wsx.geoh5)
            for side in ("rx", "px"):
                if pr.get(side) is not None:
                    out[(i, side)] = json.dumps(self.stored_meta(raws[pr["ws"]], pr[side]), sort_keys=True)
        return out

    @staticmethod
    def stored_meta(raw, uid):
        node = raw["flat"]["Objects"].get(ustr(uid))
        if node is None or "Metadata" not in node.get("datasets", {}):
            return None
        val = node["datasets"]["Metadata"]["value"]
        return json.loads(val[0] if isinstance(val, list) else val)

    # ------------------------------------------------------------------------------------------
    def execute(self, seed, program=None):
        from geoh5py import Workspace

        rng = random.Random(H(seed, "program"))
        if program is None:
            cfg, ops = self.make_config(rng), None
        else:
            cfg, ops = program["config"], program["ops"]
        sim = Sim(seed, cfg)
        executed, trace = [], []
        status, violation = "ok", None
        n_mut = n_fault = 0
        last_mut = False
        st = {"linked": False, "expect": {}, "pairs": [], "slots": {}}
        self._loops_expected = {}
        with sim.running():
            try:
                path = sim.path("s.geoh5")
                ws = Workspace.create(path, ga_version="4.2", contributors=["sim"])
                other = Workspace.create(sim.path("o.geoh5"), ga_version="4.2", contributors=["sim"]) if cfg.get("two_ws") else None
                sim.begin_op(H(seed, "ids"))
                ids = self.build(ws, cfg, random.Random(H(seed, "build")))
                sim.end_op()
                sim.probe("pair:" + cfg["pair"])
                st["pairs"] = [{"ws": "A", "rx": ids["rx"], "px": ids["px"], "linked": bool(ids.get("linked")), "expect": {}}]
                if ids.get("linked"):
                    sim.probe("link_at_creation")
                    self.check_pair(sim, ws, ids["rx"], ids["px"], cfg, "create:after", True, {})
                if PAIRS[cfg["pair"]][4] == "single":
                    st["pairs"][0]["linked"] = False
                n_ops = len(ops) if ops is not None else cfg["n_ops"]
                for i in range(n_ops):
                    if ops is not None:
                        op = ops[i]
                    else:
                        kinds = sorted(KINDS)
                        op = {"id": i, "k": rng.choices(kinds, [KINDS[k] for k in kinds])[0], "sub": rng.getrandbits(64)}
                    executed.append(op)
                    kind = op["k"]
                    r = random.Random(H(op["sub"], "args"))
                    stored_before = self.stored_all(st, ws, other) if kind in ("edit", "components", "link") else None
                    n_pairs_before = len(st["pairs"])
                    st["last_pair"] = None
                    sim.begin_op(op["sub"])
                    try:
                        res = getattr(self, "do_" + kind)(sim, {"A": ws, "B": other}, st, cfg, r, path)
                    finally:
                        sim.end_op()
                    if stored_before is not None and st.get("last_pair") is not None:
                        # C09: an edit through one pair leaves the stored metadata of every OTHER pair untouched
                        sim.oracle("other_pairs_untouched")
                        stored_after = self.stored_all(st, ws if not isinstance(res, tuple) else res[0], other)
                        for key, meta in stored_before.items():
                            if key[0] != st["last_pair"] and key[0] < n_pairs_before and stored_after.get(key) != meta:
                                raise Violation("C09", "collateral_write", f"{kind} through pair {st['last_pair']} changed the stored metadata of the {key[1]} entity of pair {key[0]}: "
                                                f"{compare._short(meta, 160)} -> {compare._short(stored_after.get(key), 160)}",
                                                {"op": "survey_" + kind, "node": "Objects", "subs": "Metadata"})
                    if isinstance(res, tuple):
                        ws, outcome = res
                    else:
                        outcome = res
                    sim.drain_warnings()
                    if kind in ("link", "edit", "components", "copy") and outcome == "ok":
                        n_mut += 1
                        last_mut = True
                    elif kind in ("gc", "reopen", "reopen_same", "drop"):
                        n_fault += 1 if last_mut else 0
                        sim.fault("ev:" + kind)
                        last_mut = False
                    trace.append(f"{kind}:{outcome}")
                    sim.record("op", op["id"], kind, outcome, len(st["pairs"]))
                    for pr in st["pairs"]:
                        wsx = ws if pr["ws"] == "A" else other
                        if pr["rx"] is None:
                            continue
                        self.check_pair(sim, wsx, pr["rx"], pr["px"], cfg, f"{kind}:after", pr["linked"], pr["expect"])
                    if sim.gc_mode == "op" and random.Random(H(op["sub"], "gcop")).random() < sim.gc_density:
                        sim.collect("op")
                st["slots"].clear()
                ws.close()
                ws = Workspace(path, mode="r")
                for pr in st["pairs"]:
                    if pr["ws"] == "A" and pr["rx"] is not None:
                        self.check_pair(sim, ws, pr["rx"], pr["px"], cfg, "final:re-opened", pr["linked"], pr["expect"])
                ws.close()
                if other is not None:
                    other.close()
                    other = Workspace(sim.path("o.geoh5"), mode="r")
                    for pr in st["pairs"]:
                        if pr["ws"] == "B" and pr["rx"] is not None:
                            self.check_pair(sim, other, pr["rx"], pr["px"], cfg, "final:re-opened", pr["linked"], pr["expect"])
                    other.close()
            except Violation as vio:
                violation = {"prop": vio.prop, "tag": vio.tag, "detail": vio.detail, "discr": vio.discr, "event": sim.events}
                sim.record("violation", vio.prop, vio.tag, vio.discr)
                status = "violation" if vio.prop == self.prop else "foreign"
            stats = {"events": sim.events, "ops": len(executed), "faults": dict(sim.faults), "probes": dict(sim.probes), "oracle_evals": dict(sim.oracle_evals),
                     "trace_hash": rawgeoh5.sha([cfg["pair"], trace]), "nontrivial": n_mut >= 2 and n_fault >= 1, "states": [], "clock_lo": sim.clock.lo,
                     "clock_hi": sim.clock.hi, "cell": cfg["pair"]}
            digest = sim.digest()
            st["slots"].clear()
            for wsx in (locals().get("ws"), locals().get("other")):
                try:
                    if wsx is not None and wsx._geoh5:  # pylint: disable=protected-access
                        wsx.close()
                except Exception:  # pylint: disable=broad-except
                    pass
        return {"status": status, "violation": violation, "suspect": None, "program": {"config": cfg, "ops": executed}, "stats": stats, "digest": digest}

    # ---- operations
    def _pick(self, st, r, linked=None):
        cands = [p for p in st["pairs"] if linked is None or p["linked"] == linked]
        return cands[r.randrange(len(cands))] if cands else None

    def do_link(self, sim, wss, st, cfg, r, path):
        _, _, rx_attr, px_attr, family = PAIRS[cfg["pair"]]
        if family == "single":
            return "skipped"
        pr = self._pick(st, r)
        if pr["px"] is None or pr["rx"] is None:
            return "skipped"
        st["last_pair"] = st["pairs"].index(pr)
        ws = wss[pr["ws"]]
        rx, px = self.get(ws, pr["rx"]), self.get(ws, pr["px"])
        side = r.choice(["rx", "partner"]) if pr["linked"] else cfg["link_from"]
        try:
            if side == "rx":
                setattr(rx, rx_attr, px)
                sim.probe("link_from_receivers")
            else:
                setattr(px, px_attr, rx)
                sim.probe("link_from_partner")
        except Exception as err:  # pylint: disable=broad-except
            del rx, px
            return "raised:" + type(err).__name__
        if cfg.get("hold"):
            st["slots"][(pr["ws"], "rx")] = rx
        if not pr["linked"]:
            # parameters edited on one side BEFORE the link are not covered by the property ("later edits"): the linking
            # side's metadata wins; adopt what the pair reports from now on
            pr["expect"] = {}
            for key in ("channels", "unit", "input_type"):
                try:
                    val = snapshot.canon(getattr(rx, key))
                except Exception:  # pylint: disable=broad-except
                    continue
                if val is not None:
                    pr["expect"][key] = val
        del rx, px
        pr["linked"] = True
        return "ok"

    def do_bad_link(self, sim, wss, st, cfg, r, path):
        """A link that must be refused (wrong class, or -- tipper -- a vertex count that fits neither 1 nor the receivers'):
        refused without side effects, the pair stays as it was."""
        from geoh5py import objects

        rx_cls, px_cls, rx_attr, px_attr, family = PAIRS[cfg["pair"]]
        if family in ("single", "dc"):
            return "skipped"
        pr = self._pick(st, r)
        if pr["rx"] is None:
            return "skipped"
        ws = wss[pr["ws"]]
        rx = self.get(ws, pr["rx"])
        which = r.choice(["wrong_class", "wrong_count"]) if family == "tipper" else "wrong_class"
        if which == "wrong_class":
            decoy = objects.Points.create(ws, vertices=np.zeros((2, 3)), name=f"decoy{len(st['pairs'])}")
        else:
            decoy = getattr(objects, px_cls).create(ws, vertices=np.zeros((rx.n_vertices + 2, 3)) + 5.0, name=f"decoy{len(st["pairs"])}")
        try:
            setattr(rx, rx_attr, decoy)
            raised = None
        except Exception as err:  # pylint: disable=broad-except
            raised = type(err).__name__
        del rx, decoy
        if raised is None:
            raise Violation("C20", "bad_link_accepted", f"linking the receivers to a {which.replace('_', ' ')} partner was accepted", {"pair": cfg["pair"], "which": which})
        sim.probe("bad_link_refused")
        return "refused:" + raised

    def do_edit(self, sim, wss, st, cfg, r, path):
        family = PAIRS[cfg["pair"]][4]
        pr = self._pick(st, r)
        st["last_pair"] = st["pairs"].index(pr)
        ws = wss[pr["ws"]]
        side = "rx" if (not pr["linked"] or pr["px"] is None or r.random() < 0.5) else "partner"
        ent = self.get(ws, pr["rx"] if side == "rx" else pr["px"])
        if family == "dc":
            del ent
            return "skipped"
        cands = []

        def safe(name):
            # (TipperSurvey.default_units and MovingLoopGroundFEMSurvey.default_input_types raise AttributeError on the
            #  unchanged tree -- a name-mangling slip outside this property; such parameters are simply not edited)
            try:
                return getattr(ent, name)
            except AttributeError:
                return None

        units, input_types = safe("default_units"), safe("default_input_types")
        if units:
            cands.append(("unit", r.choice(units)))
        cands.append(("channels", [float(r.randrange(1, 100)) for _ in range(len(pr["expect"].get("channels") or []) or r.randint(1, 3))]))
        if pr["expect"].get("_components"):
            cands = [c for c in cands if c[0] != "channels"]     # the number of channels is fixed once components exist
        if isinstance(getattr(type(ent), "loop_radius", None), property):
            cands.append(("loop_radius", 0.0 if r.random() < 0.15 else float(r.randrange(1, 50))))
        for name in ("pitch", "roll", "yaw", "inline_offset", "crossline_offset", "vertical_offset"):
            if isinstance(getattr(type(ent), name, None), property) and r.random() < 0.3:
                cands.append((name, 0.0 if r.random() < 0.25 else float(r.randrange(-20, 20))))      # (zero is a value, not an absence)
        if isinstance(getattr(type(ent), "relative_to_bearing", None), property):
            cands.append(("relative_to_bearing", r.random() < 0.5))
        if isinstance(getattr(type(ent), "timing_mark", None), property):
            cands.append(("timing_mark", float(r.randrange(1, 10)) / 1000.0))
        if isinstance(getattr(type(ent), "waveform", None), property):
            cands.append(("waveform", [[0.0, 0.0], [1.0, float(r.randrange(1, 5))], [2.0, 0.0]]))
        if input_types:
            cands.append(("input_type", r.choice(input_types)))
        attr, val = cands[r.randrange(len(cands))]
        try:
            setattr(ent, attr, np.array(val) if attr == "waveform" else val)
        except Exception as err:  # pylint: disable=broad-except
            del ent
            return "raised:" + type(err).__name__
        del ent
        pr["expect"][attr] = val
        if pr["expect"].get("_copied_from"):
            pr["expect"]["_edited"] = True
        sim.probe("edit_from_receivers" if side == "rx" else "edit_from_partner")
        return "ok"

    def do_components(self, sim, wss, st, cfg, r, path):
        if PAIRS[cfg["pair"]][4] == "dc":
            return "skipped"
        pr = self._pick(st, r)
        st["last_pair"] = st["pairs"].index(pr)
        ws = wss[pr["ws"]]
        rx = self.get(ws, pr["rx"])
        channels = pr["expect"].get("channels")
        if not channels:
            del rx
            return "skipped"
        name = f"comp{len(pr['expect'].get('_components', []))}"
        data = {name: {f"{name}[{i}]": {"values": np.full(rx.n_vertices, float(c))} for i, c in enumerate(channels)}}
        try:
            rx.add_components_data(data)
        except Exception as err:  # pylint: disable=broad-except
            del rx
            return "raised:" + type(err).__name__
        del rx
        pr["expect"].setdefault("_components", []).append(name)
        return "ok"

    def do_copy(self, sim, wss, st, cfg, r, path):
        _, _, rx_attr, px_attr, family = PAIRS[cfg["pair"]]
        if len(st["pairs"]) >= 4:
            return "skipped"
        pr = self._pick(st, r)
        src_ws = wss[pr["ws"]]
        dst_name = "B" if (wss["B"] is not None and r.random() < 0.5) else pr["ws"]
        dst_ws = wss[dst_name]
        from_side = "rx" if (pr["px"] is None or not pr["linked"] or r.random() < 0.6) else "partner"
        ent = self.get(src_ws, pr["rx"] if from_side == "rx" else pr["px"])
        masked = (family in ("em", "tipper", "single") or (family == "large" and from_side == "rx")) and r.random() < 0.35
        kw = {"parent": dst_ws}
        n_keep = N_VERT
        if masked:
            if family == "large" and r.random() < 0.7:
                first = r.random() < 0.5      # receivers of the first loop only / of the second loop only (its id is then renumbered)
                mask = np.array([(i < ent.n_vertices // 2) == first for i in range(ent.n_vertices)])
            else:
                mask = np.array([i % 2 == 0 for i in range(ent.n_vertices)])
            n_keep = int(mask.sum())
            kw["mask"] = mask
        loops_before = self.loops(src_ws, pr) if family == "large" and pr["linked"] and pr["px"] is not None else None
        before = {k: snapshot.canon(self.get(src_ws, pr[k]).metadata) for k in ("rx", "px") if pr[k] is not None}
        try:
            new = ent.copy(**kw)
        except Exception as err:  # pylint: disable=broad-except
            del ent
            return "raised:" + type(err).__name__
        del ent
        if new is None:
            return "raised:None"
        sim.probe("copy_masked" if masked else "copy_plain")
        if dst_name != pr["ws"]:
            sim.probe("copy_cross")
        if pr.get("is_copy"):
            sim.probe("copy_of_copy")
        if from_side == "partner":
            sim.probe("copy_from_partner_side")
        discr = {"pair": cfg["pair"], "from": from_side, "masked": masked, "cross": dst_name != pr["ws"], "of_copy": bool(pr.get("is_copy"))}
        # the originals are unchanged by the copy
        for k, meta in before.items():
            now = snapshot.canon(self.get(src_ws, pr[k]).metadata)
            if not compare.same(meta, now):
                raise Violation("C20", "copy_disturbed_original", f"copying changed the original {k}'s metadata: {compare._short(meta, 150)} -> {compare._short(now, 150)}", discr)
        new_pr = {"ws": dst_name, "linked": pr["linked"] and pr["px"] is not None, "expect": {**{k: (list(v) if isinstance(v, list) else v) for k, v in pr["expect"].items()}, "_copied_from": from_side}, "is_copy": True}
        if pr["px"] is None or not pr["linked"]:
            new_pr["rx"] = new.uid if from_side == "rx" else None
            new_pr["px"] = None
            if new_pr["rx"] is None:
                del new
                return "ok"     # an unlinked partner copied alone: nothing to track
        else:
            partner = getattr(new, rx_attr if from_side == "rx" else px_attr)
            if partner is None:
                raise Violation("C20", "copy_not_linked", f"the copy of the {from_side} side has no partner", discr)
            new_pr["rx"] = new.uid if from_side == "rx" else partner.uid
            new_pr["px"] = partner.uid if from_side == "rx" else new.uid
            same_ws = dst_name == pr["ws"]
            if same_ws and (new_pr["rx"] == pr["rx"] or new_pr["px"] == pr["px"]):
                raise Violation("C20", "copy_linked_to_original", f"the copy is linked to an ORIGINAL partner ({new_pr})", discr)
            if not same_ws:
                # in another workspace the identifiers may be kept, but the partner must live there
                if partner.workspace is not dst_ws:
                    raise Violation("C20", "copy_linked_to_original", "the copy's partner lives in the source workspace", discr)
            del partner
        del new
        if loops_before is not None and new_pr.get("px") is not None:
            # large loop: every copied receiver refers, in the copy, to the same loop (same coordinates) as before,
            # and the copied transmitters hold exactly the loops the copied receivers refer to
            sim.oracle("large_loop_copy")
            after = self.loops(dst_ws, new_pr)
            for coord, loop in after["by_receiver"].items():
                want = loops_before["by_receiver"].get(coord)
                if want is None or loop != want or not loop:
                    raise Violation("C20", "copy_loop_mismatch", f"copied receiver at {coord} refers to loop {sorted(loop)[:2]}..., its original refers to "
                                    f"{sorted(want)[:2] if want else None}...", {**discr, "what": "wrong_loop"})
            if from_side == "rx":
                referred = set(after["by_receiver"].values())
                if after["loops"] != referred:
                    raise Violation("C20", "copy_loop_mismatch", f"the copied transmitters hold {len(after['loops'])} loops, the copied receivers refer to {len(referred)}",
                                    {**discr, "what": "loop_set"})
                if masked:
                    sim.probe("copy_masked_large_loop")
            self.__dict__.setdefault("_loops_expected", {})[(str(dst_ws.h5file), new_pr["rx"], new_pr["px"])] = [[list(k), sorted(map(list, v))] for k, v in after["by_receiver"].items()]
        st["pairs"].append(new_pr)
        return "ok"

    def loops(self, ws, pr):
        """Large-loop pair: receiver coordinates -> coordinates of the loop it refers to; and the set of loops."""
        rx, tx = self.get(ws, pr["rx"]), self.get(ws, pr["px"])
        try:
            for side, ent in (("receivers", rx), ("transmitters", tx)):
                if ent.tx_id_property is None:
                    raise Violation("C20", "loop_ids_missing", f"the {side} of a linked large-loop pair report no transmitter-id property", {"pair": pr["family"] if "family" in pr else "large", "side": side})
            rx_ids = np.asarray(rx.tx_id_property.values)
            tx_ids = np.asarray(tx.tx_id_property.values)
            cells, tverts, rverts = np.asarray(tx.cells), np.asarray(tx.vertices), np.asarray(rx.vertices)

            def loop(tid):
                used = np.unique(cells[tx_ids == tid])
                return frozenset(tuple(float(x) for x in tverts[i]) for i in used)

            by_receiver = {tuple(float(x) for x in rverts[j]): loop(rx_ids[j]) for j in range(len(rverts))}
            return {"by_receiver": by_receiver, "loops": {loop(t) for t in np.unique(tx_ids)}}
        finally:
            del rx, tx

    def do_gc(self, sim, wss, st, cfg, r, path):
        sim.collect("event")
        return "ok"

    def do_drop(self, sim, wss, st, cfg, r, path):
        st["slots"].clear()
        return "ok"

    def do_observe(self, sim, wss, st, cfg, r, path):
        return "ok"

    def do_reopen(self, sim, wss, st, cfg, r, path, same=False):
        from geoh5py import Workspace

        st["slots"].clear()
        ws = wss["A"]
        ws.close()
        if same:
            ws.open()
        else:
            ws = Workspace(path, mode="r+")
        sim.probe("reopen")
        if any(p["linked"] for p in st["pairs"] if p["ws"] == "A"):
            sim.probe("partner_resolved_after_reopen")
        return ws, "ok"

    def do_reopen_same(self, sim, wss, st, cfg, r, path):
        return self.do_reopen(sim, wss, st, cfg, r, path, same=True)


def _strip(meta, shared_only=False):
    """Metadata with identifiers as plain strings; shared_only drops the per-entity list of component groups
    (each side reports the groups it owns: the names are resolved against its own property groups)."""
    if meta is None:
        return None
    out = json.loads(json.dumps(meta))
    if shared_only and isinstance(out.get("EM Dataset"), dict):
        out["EM Dataset"].pop("Property groups", None)
    return out


def _loose(a, b) -> bool:
    if isinstance(a, (list, tuple)) or isinstance(b, (list, tuple)):
        return compare.same(compare.flat(a) if a is not None else None, compare.flat(b) if b is not None else None)
    return compare.same(a, b)
