"""
The damage machine (C19, fault enumeration).  A world-machine prefix writes a valid file; EVERY single deletion of
one attribute or one link is applied to a copy (raw h5py), the copy is opened with the real reader, and the
result is judged against the intact file by the item's class (optional / mandatory / unclassified, derived from
the property text and the format documentation) and its described set.
"""

from __future__ import annotations

import random
import re
import shutil
from pathlib import Path

import h5py

from . import build, compare, rawgeoh5, snapshot
from .kernel import H, REPO, Sim, Violation
from .scenarios import BaseScenario
from .world import World

PREFIX_KINDS = {"mk_group": 6, "mk_object": 12, "add_data": 14, "add_comment": 3, "add_file": 2, "set_meta": 4, "pg_add": 5, "pg_new": 2, "copy": 3,
                "move": 2, "type_edit": 4, "set_flag": 2, "rename": 1}
UID = re.compile(r"^\{[0-9a-f-]{36}\}$")
FLAG_FIELDS = rawgeoh5.FLAG_ATTRS

_DOC_CACHE = {}


def doc_classes():
    """Attribute names mentioned in the format documentation, and those it marks optional."""
    if _DOC_CACHE:
        return _DOC_CACHE["mentioned"], _DOC_CACHE["optional"]
    text = ""
    root = Path(REPO) / "docs" / "content" / "geoh5_format"
    for path in sorted(root.rglob("*")):
        if path.suffix in (".rst", ".textile"):
            text += path.read_text(errors="replace") + "\n"
    mentioned, optional = set(), set()
    for line in text.splitlines():
        low = line.lower()
        for m in re.finditer(r"[:*]\s*([A-Z][A-Za-z ]{1,30}?)\s*:", line):
            name = m.group(1).strip()
            mentioned.add(name)
            if "optional" in low:
                optional.add(name)
    # the rst files put '(Optional)' on the line after ':Name:'
    lines = text.splitlines()
    for i, line in enumerate(lines[:-1]):
        m = re.match(r"^:([A-Z][A-Za-z ]{1,30}):", line.strip())
        if m:
            mentioned.add(m.group(1).strip())
            if "optional" in lines[i + 1].lower() or "optional" in line.lower():
                optional.add(m.group(1).strip())
    _DOC_CACHE["mentioned"], _DOC_CACHE["optional"] = mentioned, optional
    return mentioned, optional


def enumerate_items(path) -> list[dict]:
    """Every single-deletion fault of a file: attributes and links."""
    items = []
    with h5py.File(path, "r") as f:
        proj_name = list(f.keys())[0]
        proj = f[proj_name]

        def attrs_of(obj, where, ctx):
            for name in obj.attrs.keys():
                items.append({"what": "attr", "path": where, "name": name, **ctx})

        attrs_of(proj, proj_name, {"ctx": "project"})
        for top in proj.keys():
            items.append({"what": "link", "path": proj_name, "name": top, "ctx": "project_member"})
        for kind in rawgeoh5.KINDS:
            if kind not in proj:
                continue
            for uid in proj[kind].keys():
                node = proj[kind][uid]
                where = f"{proj_name}/{kind}/{uid}"
                ctx = {"ctx": "entity", "kind": kind, "owner": uid}
                items.append({"what": "link", "path": f"{proj_name}/{kind}", "name": uid, "ctx": "flat_entry", "kind": kind, "owner": uid})
                attrs_of(node, where, ctx)
                for member in node.keys():
                    sub = node.get(member, getclass=True)
                    if member in rawgeoh5.KINDS and isinstance(node[member], h5py.Group):
                        empty = len(node[member]) == 0
                        items.append({"what": "link", "path": where, "name": member, "ctx": "child_container", "empty": empty, **{k: v for k, v in ctx.items() if k != "ctx"}})
                        for child in node[member].keys():
                            items.append({"what": "link", "path": f"{where}/{member}", "name": child, "ctx": "child_link", "child": child, "child_kind": member,
                                          "kind": kind, "owner": uid})
                    elif member == "Type":
                        items.append({"what": "link", "path": where, "name": member, "ctx": "type_link", "kind": kind, "owner": uid})
                    elif member == "PropertyGroups":
                        items.append({"what": "link", "path": where, "name": member, "ctx": "pg_block", "kind": kind, "owner": uid})
                        for pg in node[member].keys():
                            items.append({"what": "link", "path": f"{where}/PropertyGroups", "name": pg, "ctx": "pg", "kind": kind, "owner": uid})
                            attrs_of(node[member][pg], f"{where}/PropertyGroups/{pg}", {"ctx": "pg_attr", "kind": kind, "owner": uid})
                    elif member == "Concatenated Data":
                        items.append({"what": "link", "path": where, "name": member, "ctx": "concat", "kind": kind, "owner": uid})
                        for cm in node[member].keys():
                            items.append({"what": "link", "path": f"{where}/Concatenated Data", "name": cm, "ctx": "concat", "kind": kind, "owner": uid})
                            if isinstance(node[member][cm], h5py.Group):
                                for label in node[member][cm].keys():
                                    items.append({"what": "link", "path": f"{where}/Concatenated Data/{cm}", "name": label, "ctx": "concat", "kind": kind, "owner": uid})
                    else:
                        items.append({"what": "link", "path": where, "name": member, "ctx": "dataset", "kind": kind, "owner": uid})
                        if isinstance(node[member], h5py.Dataset):
                            attrs_of(node[member], f"{where}/{member}", {"ctx": "dataset_attr", "kind": kind, "owner": uid})
        if "Types" in proj:
            for tkind in proj["Types"].keys():
                items.append({"what": "link", "path": f"{proj_name}/Types", "name": tkind, "ctx": "type_container", "tkind": tkind})
                for tuid in proj["Types"][tkind].keys():
                    where = f"{proj_name}/Types/{tkind}/{tuid}"
                    tnode = proj["Types"][tkind][tuid]
                    items.append({"what": "link", "path": f"{proj_name}/Types/{tkind}", "name": tuid, "ctx": "type_entry", "tkind": tkind, "type": tuid})
                    attrs_of(tnode, where, {"ctx": "type", "tkind": tkind, "type": tuid})
                    for member in tnode.keys():
                        items.append({"what": "link", "path": where, "name": member, "ctx": "type_member", "tkind": tkind, "type": tuid})
                        if isinstance(tnode[member], h5py.Dataset):
                            attrs_of(tnode[member], f"{where}/{member}", {"ctx": "type_member_attr", "tkind": tkind, "type": tuid})
    return items


def classify(item: dict) -> str:
    mentioned, optional = doc_classes()
    ctx, name = item["ctx"], item["name"]
    if item["what"] == "attr":
        if ctx in ("entity", "type", "project"):
            if name in ("ID", "Name"):
                return "mandatory"
            if name in optional or name not in mentioned:
                return "optional"
            return "unclassified"
        if ctx in ("type_member_attr", "dataset_attr") and name not in mentioned:
            return "optional"    # attribute of a stored dataset that the format document does not mention ("... is optional information")
        return "unclassified"
    # links
    if ctx == "project_member":
        if name == "Root":
            return "optional"
        if name in rawgeoh5.KINDS or name == "Types":
            return "mandatory"
        return "unclassified"
    if ctx == "type_link":
        return "mandatory"
    if ctx == "pg_block":
        return "optional"
    if ctx == "type_member" and name in ("Color map", "Value map"):
        return "optional"
    if ctx == "child_container" and item.get("empty"):
        return "optional"
    if ctx == "dataset" and name == "Metadata":
        return "optional"
    return "unclassified"


def apply_item(path, item):
    with h5py.File(path, "r+") as f:
        if item["what"] == "attr":
            del f[item["path"]].attrs[item["name"]]
        else:
            del f[item["path"]][item["name"]]


class DamageScenario(BaseScenario):
    prop = "C19"
    level = "fault_enumeration"

    def __init__(self):
        self.expected_probes = ["optional_ok", "mandatory_raises", "mandatory_drops", "unclassified_raises", "unclassified_ok", "item:Root", "item:pg_block",
                                "item:Color map", "item:Value map", "item:empty_container", "item:type_link", "item:flat_container", "file_with_concat"]
        self.rule = ("one evaluation = one (file, single deletion) pair. Files are written by a seeded world-machine prefix; for each file EVERY single deletion "
                     "of one attribute or one link (project, flat containers and entries, entity attributes, child containers and links, Type links, property-group "
                     "blocks / groups / attributes, datasets and their attributes, type entries / attributes / colour and value maps, concatenated-data members) is "
                     "applied to a copy with raw h5py and the copy is opened with the real Workspace in mode 'r' (a share also 'r+'). exhaustive per file. "
                     "distinct = distinct (item context, item name, class, outcome); non-trivial = deletion that the reader had to notice (it raised, or some record differs).")
        self.assumptions = ["classification into optional / mandatory / unclassified follows the property's own lists and docs/content/geoh5_format ('(Optional)' marks; "
                            "'anything not mentioned in this document is optional')", "h5py/HDF5 are trusted"]

    def make_config(self, rng):
        return {"version": rng.choices([2.1, 2.0, 1.0], [6, 3, 1])[0], "start": "disk", "two_ws": False, "gc": "none", "gc_density": 0.0, "keep_prob": 0.2,
                "h5repack": "absent", "n_prefix": rng.choice([6, 10, 14]), "tidy": True, "disabled": [], "rplus_share": 0.2}

    def simplify_config(self, cfg):
        return []

    list_keys = ["ops"]

    def execute(self, seed, program=None):
        from geoh5py import Workspace

        rng = random.Random(H(seed, "program"))
        if program is None:
            cfg = self.make_config(rng)
            ops, only = None, None
        else:
            cfg, ops, only = program["config"], program["ops"], program.get("item")
        sim = Sim(seed, cfg)
        executed = []
        status, violation, suspect = "ok", None, None
        traces, nontriv = set(), set()
        n_items = 0
        known_hits = []
        with sim.running():
            world = World(sim, cfg, "C19", [])
            try:
                world.weights = lambda: dict(PREFIX_KINDS)
                world.open_initial()
                n_prefix = len(ops) if ops is not None else cfg["n_prefix"]
                seeded = []
                if ops is None:
                    r2 = random.Random(H(seed, "seeded"))
                    seeded = [{"id": 0, "k": "mk_object", "sub": r2.getrandbits(64), "h": "A", "keep": False, "cls": "Points",
                               "t": {"by": None, "n": 0, "fb": 0, "want": "container"}, "args": build.gen_object_args(r2, "Points")},
                              {"id": 1, "k": "add_data", "sub": r2.getrandbits(64), "h": "A", "keep": False, "t": {"by": 0, "n": 0, "fb": 0, "want": "object"},
                               "dkind": "referenced", "assoc": "VERTEX", "len": "exact", "name": "ref", "pg": "pgA", "vseed": r2.getrandbits(32)}]
                    if cfg["version"] >= 2.0 and r2.random() < 0.5:
                        seeded += [{"id": 2, "k": "mk_group", "sub": r2.getrandbits(64), "h": "A", "keep": False, "cls": "DrillholeGroup", "name": "dh group",
                                    "t": {"by": None, "n": 0, "fb": 0, "want": "container"}},
                                   {"id": 3, "k": "mk_object", "sub": r2.getrandbits(64), "h": "A", "keep": False, "cls": "Drillhole",
                                    "t": {"by": 2, "n": 0, "fb": 0, "want": "groupish"}, "args": build.gen_object_args(r2, "Drillhole")}]
                        sim.probe("file_with_concat")
                for i in range(n_prefix):
                    op = ops[i] if ops is not None else (seeded[i] if i < len(seeded) else world.gen_op(rng, i))
                    executed.append(op)
                    world.apply(op)
                    if world.suspect:
                        break
                handle = world.h["A"]
                # a colour map on one data type (optional item of the property's list)
                if not world.suspect:
                    import numpy as np

                    for ent_uid, rec in list(handle.model.recs.items()):
                        if rec["kind"] == "data" and rec.get("primitive") == "FLOAT":
                            ent = world.ent("A", ent_uid, fresh=True)
                            ent.entity_type.color_map = np.array([[0.0, 0, 0, 0, 255], [1.0, 255, 255, 255, 255]])
                            del ent
                            break
                world.drop_all()
                handle.ws.close()
                handle.ws = None
                if not world.suspect:
                    path = handle.path
                    intact_ws = Workspace(path, mode="r")
                    intact = snapshot.snapshot(intact_ws)
                    intact_ws.close()
                    items = enumerate_items(path)
                    if only is not None:
                        items = [it for it in items if self.item_key(it, intact) == only]
                    n_items = len(items)
                    from . import runner as _runner

                    known = _runner.load_known()
                    for idx, item in enumerate(items):
                        mode = "r+" if random.Random(H(seed, idx)).random() < cfg.get("rplus_share", 0.2) else "r"
                        try:
                            outcome = self.judge(sim, path, item, intact, mode)
                        except Violation as vio:
                            vd = {"prop": vio.prop, "tag": vio.tag, "detail": vio.detail, "discr": {k: v for k, v in vio.discr.items() if k != "item_key"}}
                            if only is None and _runner.match_known(known, vio.prop, vd) is not None:
                                known_hits.append(vd)      # a recorded finding: keep enumerating the other deletions of this file
                                outcome = "known"
                            else:
                                raise
                        key = rawgeoh5.sha([item["ctx"], item["name"] if item["what"] == "attr" or not UID.match(item["name"]) else "<uid>", outcome])
                        traces.add(key)
                        if outcome.split(":")[-1] != "same":
                            nontriv.add(key)
            except Violation as vio:
                violation = {"prop": vio.prop, "tag": vio.tag, "detail": vio.detail, "discr": vio.discr, "event": sim.events}
                if "item_key" in vio.discr:
                    violation["item"] = vio.discr.pop("item_key")
                sim.record("violation", vio.prop, vio.tag, vio.discr)
                status = "violation" if vio.prop == self.prop else "foreign"
            if world.suspect and status == "ok":
                status, suspect = "suspect", world.suspect
            stats = {"events": sim.events, "ops": len(executed), "faults": dict(sim.faults), "probes": dict(sim.probes), "oracle_evals": dict(sim.oracle_evals),
                     "sub_traces": sorted(traces), "sub_nontrivial": sorted(nontriv), "crash_points": max(n_items, 1), "states": [],
                     "clock_lo": sim.clock.lo, "clock_hi": sim.clock.hi, "cell": "damage", "known_hits": known_hits}
            digest = sim.digest()
            world.slots.clear()
        program_out = {"config": cfg, "ops": executed}
        if violation is not None and violation.get("item"):
            program_out["item"] = violation["item"]
        elif only is not None:
            program_out["item"] = only
        return {"status": status, "violation": violation, "suspect": suspect, "program": program_out, "stats": stats, "digest": digest}

    @staticmethod
    def item_key(item, intact):
        """Replay-stable key of an item: context, names, and the owner's entity name instead of its uid."""
        owner = item.get("owner") or item.get("type")
        rec = intact.get(owner, {}) if owner else {}
        return [item["what"], item["ctx"], item["name"] if not UID.match(item["name"]) else "<uid>", rec.get("cls"), rec.get("name"), item.get("kind") or item.get("tkind"),
                intact.get(item.get("child"), {}).get("name")]

    # ------------------------------------------------------------------------------------------
    def described(self, item, intact):
        """uids of the entities the item describes (owner, linked entities, descendants)."""
        def subtree(uid):
            out, stack = set(), [uid]
            while stack:
                cur = stack.pop()
                if cur in out:
                    continue
                out.add(cur)
                stack.extend(intact.get(cur, {}).get("children", []))
            return out

        ctx = item["ctx"]
        kind_of = {"Groups": "group", "Objects": "object", "Data": "data"}
        if ctx == "project":
            # the header's optional attributes describe no entity; the others (Version, ...) govern how every entity is read
            return set() if classify(item) == "optional" else set(intact)
        if ctx == "project_member":
            if item["name"] == "Root":
                return {u for u, r in intact.items() if r["parent"] is None}
            if item["name"] in kind_of:
                out = set()
                for u, r in intact.items():
                    if r["kind"] == kind_of[item["name"]]:
                        out |= subtree(u)
                return out
            return set(intact)
        if ctx in ("type_container",):
            tk = {"Data types": "data", "Group types": "group", "Object types": "object"}[item["tkind"]]
            out = set()
            for u, r in intact.items():
                if r["kind"] == tk:
                    out |= subtree(u)
            return out
        if ctx in ("type", "type_entry", "type_member", "type_member_attr"):
            out = set()
            for u, r in intact.items():
                if r["type_uid"] == item["type"]:
                    out |= subtree(u)
            return out
        if ctx == "child_link":
            return subtree(item["child"]) | {item["owner"]}
        if ctx == "child_container":
            out = {item["owner"]}
            want = kind_of[item["name"]]
            for c in intact.get(item["owner"], {}).get("children", []):
                if intact.get(c, {}).get("kind") == want:
                    out |= subtree(c)
            return out
        if ctx == "concat":
            return subtree(item["owner"])
        if ctx in ("flat_entry",):
            return subtree(item["owner"]) | {intact.get(item["owner"], {}).get("parent")}
        if ctx in ("entity", "dataset", "dataset_attr", "type_link", "pg_block", "pg", "pg_attr"):
            out = {item["owner"]}
            if classify(item) == "mandatory":
                out |= subtree(item["owner"])     # "... the entities that item describes together with their descendants"
            # concatenated children live inside their group's node
            if intact.get(item["owner"], {}).get("cls", "").startswith("Concatenator"):
                out |= subtree(item["owner"])
            # a geometry dataset also determines what the children report (their lengths follow the element count)
            if ctx in ("dataset", "dataset_attr") and intact.get(item["owner"], {}).get("kind") == "object":
                out |= set(intact[item["owner"]].get("children", []))
            return out
        return set(intact)

    def judge(self, sim, path, item, intact, mode) -> str:
        from geoh5py import Workspace

        cls = classify(item)
        key = self.item_key(item, intact)
        tag_ctx = {"cls": cls, "ctx": item["ctx"], "name": item["name"] if not UID.match(item["name"]) else "<uid>", "item_key": key}
        sim.fault(f"delete:{cls}:{item['ctx']}")
        if item["ctx"] == "project_member" and item["name"] == "Root":
            sim.probe("item:Root")
        for nm, pr in (("pg_block", "item:pg_block"), ("type_link", "item:type_link")):
            if item["ctx"] == nm:
                sim.probe(pr)
        if item["ctx"] == "type_member" and item["name"] in ("Color map", "Value map"):
            sim.probe("item:" + item["name"])
        if item["ctx"] == "child_container" and item.get("empty"):
            sim.probe("item:empty_container")
        if item["ctx"] == "project_member" and item["name"] in rawgeoh5.KINDS:
            sim.probe("item:flat_container")
        copy = sim.path("damaged.geoh5")
        shutil.copy(path, copy)
        apply_item(copy, item)
        sha_before = rawgeoh5.file_sha256(copy)
        sim.oracle("damaged_open")
        raised = None
        records = None
        ws = None
        try:
            ws = Workspace(copy, mode=mode)
            records = snapshot.snapshot(ws)
        except Exception as err:  # pylint: disable=broad-except
            raised = f"{type(err).__name__}: {str(err)[:100]}"
        finally:
            if ws is not None:
                try:
                    ws.close()
                except Exception:  # pylint: disable=broad-except
                    pass
            del ws
        if mode == "r" and rawgeoh5.file_sha256(copy) != sha_before:
            raise Violation("C19", "damaged_file_written", f"opening the damaged copy read-only changed its bytes ({item['ctx']} {item['name']})", tag_ctx)
        copy.unlink()
        where = f"{item['what']} {item['path'].split('/', 1)[-1]}:{item['name']}"
        if raised is not None:
            if cls == "optional":
                raise Violation("C19", "optional_item_fatal", f"deleting optional {where} makes the file unreadable: {raised}", {**tag_ctx, "exc": raised.split(":")[0]})
            sim.probe(f"{cls}_raises")
            return f"{cls}:raises"
        described = self.described(item, intact)
        described.discard(None)
        root_like = {u for u, r in records.items() if r["parent"] is None} | {u for u, r in intact.items() if r["parent"] is None}
        problems = []
        for uid, rec in intact.items():
            if uid in described or uid in root_like:
                continue
            got = records.get(uid)
            if got is None:
                problems.append(f"{uid} ({rec['kind']} {rec['name']!r}) is missing")
                continue
            ign = set()
            diffs = compare.diff_record(rec, got, "INTACT", "DAMAGED")
            # children lists may lose members of the described set; parents may be re-rooted
            diffs = [d for d in diffs if not (" children:" in d and set(rec["children"]) - set(got["children"]) <= described
                                              and set(got["children"]) <= set(rec["children"]))]
            diffs = [d for d in diffs if not (" parent:" in d and (rec["parent"] in root_like or got["parent"] in root_like))]
            if diffs:
                problems.append(diffs[0])
        extra = [u for u in records if u not in intact and u not in root_like]
        if extra:
            problems.append(f"unknown entity {extra[0]} appeared")
        if problems:
            # what kind of difference: an entity gone or unknown, stored content, the parent, or only lists of children
            kinds = {"missing" if (p.endswith("is missing") or p.startswith("unknown entity")) else "children" if " children:" in p else "parent" if " parent:" in p else "content"
                     for p in problems}
            worst = next(k for k in ("missing", "content", "parent", "children") if k in kinds)
            first = next(p for p in problems if (worst == "missing") == (p.endswith("is missing") or p.startswith("unknown entity")))
            raise Violation("C19", "unrelated_entity_altered", f"deleting {cls} {where}: {first} (+{len(problems) - 1} more)", {**tag_ctx, "what": worst})
        if item["ctx"] in ("pg", "pg_attr"):
            # an item of ONE property group describes that group: the object's other groups, and the rest of the object, stay
            owner = item.get("owner")
            pg_uid = item["name"] if item["ctx"] == "pg" else item["path"].rsplit("/", 1)[-1]
            got = records.get(owner)
            if owner in intact and got is not None:
                sim.oracle("sibling_groups_kept")
                want_pgs = {k: v for k, v in (intact[owner].get("pgs") or {}).items() if k != pg_uid}
                got_pgs = {k: v for k, v in (got.get("pgs") or {}).items() if k != pg_uid}
                # (the described group itself may be missing, defaulted, or listed under another identifier)
                extra = set(got_pgs) - set(want_pgs)
                if len(extra) > 1 or not compare.same(want_pgs, {k: v for k, v in got_pgs.items() if k in want_pgs}):
                    lost = sorted(set(want_pgs) - set(got_pgs))
                    raise Violation("C19", "unrelated_entity_altered", f"deleting {cls} {where}: the object's OTHER property groups changed "
                                    f"(lost {lost}; intact {sorted(want_pgs)}, damaged {sorted(got_pgs)})", {**tag_ctx, "what": "sibling_pg"})
                rest = [d for d in compare.diff_record({**intact[owner], "pgs": {}}, {**got, "pgs": {}}, "INTACT", "DAMAGED")]
                if rest:
                    raise Violation("C19", "unrelated_entity_altered", f"deleting {cls} {where}: {rest[0]}", {**tag_ctx, "what": "owner_rest"})
        if cls == "optional":
            # the owner itself differs at most in the deleted attribute
            owner = item.get("owner")
            if owner and owner in intact and item["ctx"] == "entity":
                got = records.get(owner)
                if got is None:
                    raise Violation("C19", "optional_item_drops_owner", f"deleting optional {where} drops the entity it belongs to", tag_ctx)
                field = FLAG_FIELDS.get(item["name"])
                diffs = compare.diff_record(intact[owner], got, "INTACT", "DAMAGED")
                diffs = [d for d in diffs if not (field and " flags:" in d) and f"attr[{item['name']}]" not in d]
                if field and " flags:" in " ".join(compare.diff_record(intact[owner], got)):
                    other = {k: v for k, v in got["flags"].items() if k != field} != {k: v for k, v in intact[owner]["flags"].items() if k != field}
                    if other:
                        diffs.append(f"{owner} flags other than {field} changed")
                if diffs:
                    raise Violation("C19", "optional_item_alters_owner", f"deleting optional {where}: {diffs[0]}", tag_ctx)
            if item["ctx"] in ("project_member", "pg_block", "type_member", "child_container", "dataset", "type", "project"):
                for uid in described:
                    if uid in intact and uid not in records and uid not in root_like:
                        raise Violation("C19", "optional_item_drops_entity", f"deleting optional {where} drops {intact[uid]['kind']} {intact[uid]['name']!r}", tag_ctx)
            sim.probe("optional_ok")
            same = all(compare.diff_record(intact[u], records[u]) == [] for u in intact if u in records)
            return "optional:" + ("same" if same else "differs")
        missing = [u for u in described if u in intact and u not in records]
        if cls == "mandatory":
            sim.probe("mandatory_drops" if missing else "mandatory_tolerated")
            return "mandatory:" + ("drops" if missing else "tolerated")
        sim.probe("unclassified_ok")
        changed = bool(missing) or any(compare.diff_record(intact[u], records[u]) for u in described if u in intact and u in records)
        return "unclassified:" + ("differs" if changed else "same")
