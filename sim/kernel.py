"""
Simulation kernel: seeds, seams (uuid / gc / clock / h5repack / tempdir), the GC actor,
event log and digest.  Everything random in a run derives from one integer.

A `Sim` is created per run.  Scenarios call `sim.begin_op(op)` / `sim.end_op()` around each
operation so that identifiers and in-operation GC points derive from the operation's own
sub-seed (stable under shrinking).
"""

from __future__ import annotations

import gc
import hashlib
import json
import os
import random
import shutil
import subprocess
import sys
import tempfile
import uuid
import warnings
from contextlib import contextmanager
from datetime import datetime as _real_datetime
from pathlib import Path

REPO = os.environ.get("VERIF_REPO", "/repo")


def H(*parts) -> int:
    """Stable 64-bit hash of the parts (never Python's hash())."""
    digest = hashlib.sha256("\x1f".join(str(p) for p in parts).encode()).digest()
    return int.from_bytes(digest[:8], "big")


class Violation(Exception):
    """A property violation found by an oracle."""

    def __init__(self, prop: str, tag: str, detail: str, discr: dict | None = None):
        super().__init__(f"{prop}:{tag}: {detail}")
        self.prop = prop
        self.tag = tag
        self.detail = detail
        # plain JSON values only (numpy scalars come out of comparisons easily)
        self.discr = {k: (v.item() if hasattr(v, "item") and not isinstance(v, (list, dict, str)) else v) for k, v in (discr or {}).items()}

    def signature(self) -> dict:
        return {"oracle": self.tag, "discr": self.discr}


class HarnessError(Exception):
    """The simulator itself is broken (never a property verdict)."""


class SimAbort(Exception):
    """Exception injected into a with-block (C11 crash point)."""


# --------------------------------------------------------------------------------------------- clock
class SimClock:
    """Simulated wall clock read by add_comment() and monitored_directory_copy()."""

    EPOCH = 1_700_000_000.0

    def __init__(self):
        self.now = self.EPOCH
        self.reads = 0
        self.lo = self.hi = self.now

    def advance(self, seconds: float):
        self.now += seconds
        self.lo = min(self.lo, self.now)
        self.hi = max(self.hi, self.now)

    def time(self) -> float:
        self.reads += 1
        return self.now


def _make_datetime(clock: SimClock):
    class SimDatetime(_real_datetime):
        @classmethod
        def now(cls, tz=None):
            clock.reads += 1
            return _real_datetime.utcfromtimestamp(clock.now)

    return SimDatetime


# --------------------------------------------------------------------------------------------- poison numpy
class PoisonNumpy:
    """Proxy for the numpy module seen by geoh5py.objects.drillhole (fault N7).

    np.divide(..., where=mask) without out= leaves unspecified memory where mask is False.
    The proxy makes that memory hold a chosen poison value -- a legal behaviour of numpy.
    """

    def __init__(self, real, poison, counter: dict):
        self._real = real
        self._poison = poison
        self._counter = counter

    def __getattr__(self, name):
        return getattr(self._real, name)

    def divide(self, a, b, *args, **kwargs):
        np = self._real
        if "where" in kwargs and "out" not in kwargs and not args and self._poison is not None:
            shape = np.broadcast(np.asarray(a), np.asarray(b)).shape
            out = np.full(shape, self._poison, dtype=float)
            where = np.asarray(kwargs["where"])
            if where.shape and not where.all():
                self._counter["poison_divide"] = self._counter.get("poison_divide", 0) + 1
            return np.divide(a, b, out=out, **kwargs)
        return np.divide(a, b, *args, **kwargs)


# --------------------------------------------------------------------------------------------- Sim
class Sim:
    """One simulated run: owns every source of nondeterminism the properties depend on."""

    def __init__(self, seed: int, config: dict | None = None, trace_lines: bool = False):
        self.seed = seed
        self.config = config or {}
        self.rng = random.Random(seed)
        self.clock = SimClock()
        self.log: list = []
        self.faults: dict[str, int] = {}
        self.probes: dict[str, int] = {}
        self.oracle_evals: dict[str, int] = {}
        self.events = 0
        self.scratch: Path | None = None
        self._op_rng: random.Random | None = None
        self._ambient = random.Random(H(seed, "ambient"))
        self._installed = False
        self._saved: list = []
        self._gc_points: set[int] = set()
        self._io_calls = 0
        self._gc_was_enabled = True
        self.gc_mode = self.config.get("gc", "op")  # none | op | io | line
        self.gc_density = self.config.get("gc_density", 0.3)
        self.repack_outcome = self.config.get("h5repack", "absent")  # absent | ok | fail
        self.poison = self.config.get("poison")
        if isinstance(self.poison, str):     # "nan" / "inf" / "-inf" / "1e300": replay files are plain JSON
            self.poison = float(self.poison)
        self.warnings: list[str] = []
        self._line_budget = 0
        self._line_count = 0

    # ---- bookkeeping -------------------------------------------------------------------------
    def fault(self, kind: str, n: int = 1):
        self.faults[kind] = self.faults.get(kind, 0) + n

    def probe(self, name: str, n: int = 1):
        self.probes[name] = self.probes.get(name, 0) + n

    def oracle(self, name: str, n: int = 1):
        self.oracle_evals[name] = self.oracle_evals.get(name, 0) + n

    def record(self, *event):
        self.events += 1
        self.log.append(event)

    def digest(self) -> str:
        return hashlib.sha256(json.dumps(self.log, default=repr, sort_keys=True).encode()).hexdigest()[:16]

    # ---- uuid stream -------------------------------------------------------------------------
    def uuid4(self) -> uuid.UUID:
        rng = self._op_rng if self._op_rng is not None else self._ambient
        return uuid.UUID(int=rng.getrandbits(128), version=4)

    def begin_op(self, sub: int):
        self._op_rng = random.Random(H(sub, "uuid"))
        self._io_calls = 0
        self._line_count = 0
        gc_rng = random.Random(H(sub, "gc"))
        self._gc_points = set()
        if self.gc_mode == "io":
            # choose a few io-call ordinals inside this op at which the collector pre-empts
            if gc_rng.random() < self.gc_density:
                self._gc_points = {gc_rng.randrange(0, 40) for _ in range(gc_rng.randint(1, 3))}
        elif self.gc_mode == "line":
            if gc_rng.random() < self.gc_density:
                self._gc_points = {gc_rng.randrange(0, 1500) for _ in range(gc_rng.randint(1, 3))}

    def end_op(self):
        self._op_rng = None
        self._gc_points = set()

    # ---- GC actor ----------------------------------------------------------------------------
    def collect(self, why: str = "sched") -> int:
        n = gc.collect()
        self.fault("gc:" + why)
        return n

    def _repo_collect(self, *args):
        """The repo's own `collect()` call inside Workspace.remove_entity stays real."""
        self.fault("gc:repo")
        return gc.collect(*args)

    def _io_preempt(self):
        if self._gc_points:
            if self._io_calls in self._gc_points:
                self.collect("io")
            self._io_calls += 1

    def _trace(self, frame, event, arg):
        if event == "call":
            if frame.f_code.co_filename.startswith(self._repo_prefix):
                return self._trace_local
            return None
        return None

    def _trace_local(self, frame, event, arg):
        if event == "line" and self._gc_points:
            if self._line_count in self._gc_points:
                self._line_count += 1
                self.collect("line")
            else:
                self._line_count += 1
        return self._trace_local

    # ---- h5repack stub -----------------------------------------------------------------------
    def _subprocess_run(self, cmd, *args, **kwargs):
        if not (isinstance(cmd, str) and cmd.startswith("h5repack")):
            raise HarnessError(f"unexpected subprocess: {cmd!r}")
        import shlex

        parts = shlex.split(cmd)
        src, dst = parts[-2], parts[-1]
        outcome = self.repack_outcome
        self.fault("h5repack:" + outcome)
        if outcome == "absent":
            raise subprocess.CalledProcessError(127, cmd)
        if outcome == "fail":
            # partial output then failure
            with open(src, "rb") as fin, open(dst, "wb") as fout:
                fout.write(fin.read(512))
            raise subprocess.CalledProcessError(1, cmd)
        # ok: a faithful repack = rewrite of the same content (h5py copy of every object)
        import h5py

        with h5py.File(src, "r") as fin, h5py.File(dst, "w") as fout:
            for name in fin:
                fin.copy(name, fout)
            for key, val in fin.attrs.items():
                fout.attrs[key] = val
        return subprocess.CompletedProcess(cmd, 0)

    # ---- install / remove seams --------------------------------------------------------------
    def install(self):
        if self._installed:
            return
        import geoh5py.groups.base as groups_base
        import geoh5py.objects.drillhole as drillhole_mod
        import geoh5py.objects.object_base as object_base
        import geoh5py.ui_json.utils as ui_utils
        import geoh5py.workspace.workspace as ws_mod
        import numpy as real_np

        if not os.path.realpath(ws_mod.__file__).startswith(os.path.realpath(REPO) + os.sep):
            raise HarnessError(f"geoh5py imported from {ws_mod.__file__}, expected under {REPO}")
        self._repo_prefix = os.path.join(os.path.realpath(REPO), "geoh5py")
        base = Path("/dev/shm") if Path("/dev/shm").is_dir() and os.access("/dev/shm", os.W_OK) else Path(tempfile.gettempdir())
        self.scratch = Path(tempfile.mkdtemp(prefix=f"geoh5sim-{os.getpid()}-", dir=base))
        (self.scratch / "tmp").mkdir()

        def patch(obj, name, new):
            self._saved.append((obj, name, getattr(obj, name)))
            setattr(obj, name, new)

        patch(uuid, "uuid4", self.uuid4)
        patch(ws_mod, "collect", self._repo_collect)
        sim_dt = _make_datetime(self.clock)
        patch(groups_base, "datetime", sim_dt)
        patch(object_base, "datetime", sim_dt)
        patch(ui_utils, "time", self.clock.time)

        class _Sub:
            run = staticmethod(self._subprocess_run)
            DEVNULL = subprocess.DEVNULL
            CalledProcessError = subprocess.CalledProcessError

        patch(ws_mod, "subprocess", _Sub)

        class _Tmp:
            @staticmethod
            def gettempdir(scratch=self.scratch):
                return str(scratch / "tmp")

        patch(ws_mod, "tempfile", _Tmp)
        patch(drillhole_mod, "np", PoisonNumpy(real_np, self.poison, self.faults))

        orig_io = ws_mod.Workspace._io_call
        sim = self

        def _io_call(ws, fun, *args, **kwargs):
            sim._io_preempt()
            return orig_io(ws, fun, *args, **kwargs)

        patch(ws_mod.Workspace, "_io_call", _io_call)

        self._gc_was_enabled = gc.isenabled()
        gc.collect()
        gc.disable()
        self._warn_ctx = warnings.catch_warnings(record=True)
        self._warn_list = self._warn_ctx.__enter__()
        warnings.simplefilter("always")
        if self.gc_mode == "line":
            sys.settrace(self._trace)
        self._installed = True

    def uninstall(self):
        if not self._installed:
            return
        if self.gc_mode == "line":
            sys.settrace(None)
        self._warn_ctx.__exit__(None, None, None)
        for obj, name, old in reversed(self._saved):
            setattr(obj, name, old)
        self._saved = []
        gc.collect()
        if self._gc_was_enabled:
            gc.enable()
        if self.scratch is not None:
            shutil.rmtree(self.scratch, ignore_errors=True)
        self._installed = False

    def drain_warnings(self) -> list[str]:
        out = [f"{w.category.__name__}" for w in self._warn_list]
        del self._warn_list[:]
        return out

    @contextmanager
    def running(self):
        self.install()
        try:
            yield self
        finally:
            self.uninstall()

    def path(self, name: str) -> Path:
        return self.scratch / name
