"""Scenarios other than the world machine."""


def make(name: str, *args):
    raise KeyError(f"no scenario for {name}")
