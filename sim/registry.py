"""Scenarios other than the world machine, and per-property mixes of scenarios."""

from __future__ import annotations


class Mix:
    """A check that alternates between several scenarios by run seed (each sub-scenario judges the same property)."""

    def __init__(self, prop, parts):
        self.prop = prop
        self.parts = parts           # list of (weight, scenario)
        first = parts[0][1]
        self.level = first.level
        self.stubs = sorted({s for _, p in parts for s in p.stubs})
        self.assumptions = sorted({a for _, p in parts for a in p.assumptions})
        self.expected_probes = [x for _, p in parts for x in p.expected_probes]
        self.rule = " || ".join(f"[{type(p).__name__}] {p.rule}" for _, p in parts)

    def pick(self, seed, program):
        if program is not None:
            idx = program.get("config", {}).get("part", 0)      # (replay files written before a check became a mix: its first scenario)
            return self.parts[idx][1], idx
        total = sum(w for w, _ in self.parts)
        x = seed % total
        for i, (w, p) in enumerate(self.parts):
            if x < w:
                return p, i
            x -= w
        return self.parts[-1][1], len(self.parts) - 1

    def execute(self, seed, program=None):
        part, idx = self.pick(seed, program)
        res = part.execute(seed, program)
        res["program"]["config"] = {**res["program"]["config"], "part": idx}
        res["stats"]["cell"] = f"{type(part).__name__}:{res['stats'].get('cell', '')}"
        return res

    def simplify_config(self, cfg):
        return [{**c, "part": cfg["part"]} for c in self.parts[cfg.get("part", 0)][1].simplify_config(cfg)]

    def extra_coverage(self, agg):
        return {}


def make(name: str, *args):
    from .concat import ConcatScenario

    from .scenarios import WorldScenario

    if name == "C04":
        return ConcatScenario("C04")
    if name == "C03":
        from .setter import SetterScenario

        return Mix("C03", [(3, SetterScenario()), (1, ConcatScenario("C03"))])
    if name == "C07":
        from .geometry import GeometryScenario

        return GeometryScenario()
    if name == "C20":
        from .survey import SurveyScenario

        return SurveyScenario()
    if name == "C15":
        from .validation import InputFileScenario, ParamScenario

        return Mix("C15", [(3, InputFileScenario()), (2, ParamScenario())])
    if name == "C18":
        from .drillhole import DrillholeScenario

        return DrillholeScenario()
    if name == "C10":
        from .readonly import ReadOnlyScenario

        return ReadOnlyScenario()
    if name == "C19":
        from .damage import DamageScenario

        return DamageScenario()
    if name == "C11":
        from .lifecycle import LifecycleScenario

        return LifecycleScenario()
    if name == "C01":
        from .geometry import GeometryScenario

        # the world machine, plus the geometry machine's histories (vertex / cell removal, padded and refused assignments) judged for C01
        return Mix("C01", [(5, WorldScenario("C01")), (1, GeometryScenario("C01"))])
    if name in ("C05", "C09", "C12"):
        weights = {"C05": (3, 2), "C09": (4, 2), "C12": (3, 2)}[name]
        parts = [(weights[0], WorldScenario(name)), (weights[1], ConcatScenario(name))]
        if name in ("C12", "C09"):
            from .survey import SurveyScenario

            # C12: copies of linked surveys (all survey class pairs); C09: an edit through one pair leaves the others' stored metadata alone
            parts.append((1, SurveyScenario(name)))
        if name == "C12":
            from .drillhole import DrillholeScenario

            parts.append((1, DrillholeScenario("C12")))      # plain drillholes with depth logs: a copy is edited, the source must not notice
        return Mix(name, parts)
    raise KeyError(f"no scenario for {name}")
