"""Command line of ./check."""

from __future__ import annotations

import argparse
import os
import sys


def main(argv) -> int:
    parser = argparse.ArgumentParser(prog="check")
    parser.add_argument("target", help="property id (C01 ...) or 'selftest'")
    parser.add_argument("--tier", default=os.environ.get("VERIF_TIER", "quick"), choices=["quick", "thorough"])
    parser.add_argument("--replay")
    parser.add_argument("--budget", type=float, default=None, help="simulation wall budget in seconds")
    parser.add_argument("--runs", type=int, default=None, help="exact number of runs (overrides the budget)")
    parser.add_argument("--jobs", type=int, default=int(os.environ.get("VERIF_JOBS", "0")) or min(16, os.cpu_count() or 1))
    parser.add_argument("--seed", type=int, default=int(os.environ.get("VERIF_SEED", "0")))
    parser.add_argument("--one", type=int, default=None, help="run a single run index in-process (debug)")
    parser.add_argument("--determinism", action="store_true")
    parser.add_argument("--setup", action="store_true")
    parser.add_argument("--schema", action="store_true")
    parser.add_argument("--digests", type=int, default=None, help="print event-log digests of the first N runs")
    args = parser.parse_args(argv)

    import geoh5py

    repo = os.path.realpath(os.environ.get("VERIF_REPO", "/repo"))
    if not os.path.realpath(geoh5py.__file__).startswith(repo + os.sep):
        print(f"HARNESS-ERROR: geoh5py imported from {geoh5py.__file__}, not from {repo}")
        return 2

    from . import runner, selftest

    if args.target == "selftest":
        return selftest.main(args)
    if args.replay:
        return runner.replay(args.replay)
    from . import scenarios

    if args.digests is not None:
        scn = scenarios.make(args.target)
        for i in range(args.digests):
            res = scn.execute(runner.run_seed(args.seed, scn.prop, i), None)
            print(i, res["status"], res["digest"], len(res["program"]["ops"]))
        return 0
    if args.one is not None:
        scn = scenarios.make(args.target)
        res = scn.execute(runner.run_seed(args.seed, scn.prop, args.one), None)
        print(res["status"], res.get("violation") or res.get("suspect"), res["digest"])
        for op in res["program"]["ops"]:
            print("  ", runner._brief(op))
        return 0 if res["status"] == "ok" else 1
    quick = {"C04": 60.0, "C05": 50.0, "C09": 60.0, "C12": 55.0, "C19": 45.0}
    budget = args.budget if args.budget is not None else (quick.get(args.target, 40.0) if args.tier == "quick" else 900.0)
    batch = runner.Batch((args.target,), args.tier, args.seed, args.jobs, budget, max_runs=args.runs)
    return batch.run()
