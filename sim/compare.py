"""Comparison of MODEL / LIVE / REOPEN / RAW records."""

from __future__ import annotations

import json

from .rawgeoh5 import decode_float

import re as _re

_UID = _re.compile(r"^\{[0-9a-fA-F]{8}-[0-9a-fA-F]{4}-")

RAW_ARRAYS = {
    "Vertices": "vertices", "Cells": "cells", "Octree Cells": "octree_cells", "Prisms": "prisms",
    "Layers": "layers", "Surveys": "surveys", "Trace": "trace",
    "U cell delimiters": "u_cell_delimiters", "V cell delimiters": "v_cell_delimiters",
    "Z cell delimiters": "z_cell_delimiters",
}
DEFAULT_SURVEYS = [[0.0, 0.0, -90.0]]


def same(a, b) -> bool:
    """Structural equality, int/float tolerant, NaN == NaN (canonical 'nan')."""
    if isinstance(a, bool):
        a = int(a)
    if isinstance(b, bool):
        b = int(b)
    if isinstance(a, (int, float)) and isinstance(b, (int, float)):
        return a == b
    if isinstance(a, (list, tuple)) and isinstance(b, (list, tuple)):
        return len(a) == len(b) and all(same(x, y) for x, y in zip(a, b))
    if isinstance(a, dict) and isinstance(b, dict):
        return a.keys() == b.keys() and all(same(a[k], b[k]) for k in a)
    return a == b


def attr_same(a, b) -> bool:
    """Attribute equality: compound values compare flattened; the concatenated JSON encoding
    of an array attribute ("{x, y, z}") compares with the array it encodes."""
    def brace(v):
        if isinstance(v, str) and v.startswith("{") and v.endswith("}") and not _UID.match(v):
            try:
                return [float(t) for t in v[1:-1].split(",") if t.strip()]
            except ValueError:
                return v
        return v
    a, b = brace(a), brace(b)
    if isinstance(a, (list, tuple)) or isinstance(b, (list, tuple)):
        return same(flat(a), flat(b))
    return same(a, b)


def flat(x) -> list:
    out = []
    stack = [x]
    while stack:
        cur = stack.pop()
        if isinstance(cur, (list, tuple)):
            stack.extend(reversed(cur))
        else:
            out.append(cur)
    return out


def _json(text):
    if isinstance(text, list):
        text = text[0] if text else None
    if text is None:
        return None
    try:
        return json.loads(text)
    except (TypeError, ValueError):
        return f"<bad json {str(text)[:40]!r}>"


def raw_values(rec: dict):
    """Decode the stored values of a RAW data record into the LIVE canonical form."""
    dsets = rec["datasets"]
    prim = (rec.get("primitive") or "").lower()
    data = dsets.get("Data")
    if prim == "filename":
        fname = data["value"] if data else None
        if isinstance(fname, list):
            fname = fname[0] if fname else None
        blob = dsets.get(fname) if fname is not None else None
        val = blob["value"] if blob else None
        if isinstance(val, list):
            val = val[0] if val else None
        if isinstance(val, str) and val.startswith("hex:"):
            val = val[4:]
        return {"file_name": fname, "blob": val}
    if data is None:
        return None
    val = data["value"]
    if not isinstance(val, list):
        val = [val]
    if prim == "text" and rec.get("name") == "UserComments":
        parsed = _json(val)
        if isinstance(parsed, dict) and "Comments" in parsed:
            return parsed["Comments"]
        return parsed
    if prim == "float":
        return decode_float(val)
    return val


def normalise_raw(rec: dict) -> dict:
    """RAW record (rawgeoh5.decode_tree) -> record comparable with snapshot.record."""
    out = {
        "uid": rec["uid"], "kind": rec["kind"], "type_uid": rec["type_uid"], "parent": rec["parent"],
        "name": rec["name"], "flags": dict(rec["flags"]), "children": sorted(rec["children"]),
        "pgs": {k: dict(v) for k, v in rec["pgs"].items()}, "attrs": {}, "arrays": {}, "metadata": None,
    }
    for key, val in rec["attrs"].items():
        if key == "Association" and isinstance(val, str):
            val = val.upper()
        out["attrs"][key] = val
    for dname, dset in rec["datasets"].items():
        if dname in RAW_ARRAYS:
            out["arrays"][RAW_ARRAYS[dname]] = dset["value"]
        elif dname == "Metadata":
            out["metadata"] = _json(dset["value"])
        elif dname == "options":
            out["arrays"]["options"] = _json(dset["value"])
    if rec["kind"] == "data":
        out["values"] = raw_values(rec)
        out["primitive"] = (rec.get("primitive") or "").upper().replace("-", "_") or None
    return out


def diff_record(a: dict, b: dict, la="A", lb="B", fields=None, skip_attrs=()) -> list[str]:
    """Differences between two records of the same entity."""
    diffs = []
    uid = a.get("uid")
    for field in fields or ("kind", "cls", "type_uid", "parent", "name", "flags", "values", "primitive", "metadata", "pgs", "children"):
        if field not in a or field not in b or field in ("attrs", "arrays"):
            continue
        va, vb = a[field], b[field]
        # property-group members compare in order: the order is stored and meaningful (channels, from/to)
        if field == "metadata":
            va, vb = va or None, vb or None
        if not same(va, vb):
            diffs.append(f"{uid} {field}: {la}={_short(va)} {lb}={_short(vb)}")
    if fields is None or "attrs" in fields:
        aa, ab = a.get("attrs", {}), b.get("attrs", {})
        for key in sorted(aa.keys() | ab.keys()):
            if key in skip_attrs:
                continue
            if not attr_same(aa.get(key), ab.get(key)):
                diffs.append(f"{uid} attr[{key}]: {la}={_short(aa.get(key))} {lb}={_short(ab.get(key))}")
    if fields is None or "arrays" in fields:
        ra, rb = a.get("arrays", {}), b.get("arrays", {})
        for key in sorted(ra.keys() | rb.keys()):
            xa, xb = ra.get(key), rb.get(key)
            if key == "surveys" and (xa is None or xb is None):
                other = xa if xb is None else xb
                if same(flat(other), flat(DEFAULT_SURVEYS)):
                    continue
            if key == "options":
                if not same(xa or {}, xb or {}):
                    diffs.append(f"{uid} options: {la}={_short(xa)} {lb}={_short(xb)}")
                continue
            if xa is None or xb is None or not same(flat(xa), flat(xb)):
                diffs.append(f"{uid} array[{key}]: {la}={_short(xa)} {lb}={_short(xb)}")
    return diffs


def diff_trees(a: dict, b: dict, la="A", lb="B", fields=None, skip_attrs=(), ignore=()) -> list[str]:
    diffs = []
    for uid in sorted(a.keys() - b.keys()):
        if uid not in ignore:
            diffs.append(f"{uid} ({a[uid].get('kind')} {a[uid].get('name')!r}) in {la} but not in {lb}")
    for uid in sorted(b.keys() - a.keys()):
        if uid not in ignore:
            diffs.append(f"{uid} ({b[uid].get('kind')} {b[uid].get('name')!r}) in {lb} but not in {la}")
    for uid in sorted(a.keys() & b.keys()):
        if uid in ignore:
            continue
        if a[uid].get("duplicate_in_tree") or b[uid].get("duplicate_in_tree"):
            diffs.append(f"{uid} appears twice in the tree")
        diffs.extend(diff_record(a[uid], b[uid], la, lb, fields, skip_attrs))
    return diffs


def _short(val, n=90) -> str:
    text = json.dumps(val, default=repr, sort_keys=True) if not isinstance(val, str) else repr(val)
    return text if len(text) <= n else text[: n - 3] + "..."
