"""
The drillhole machine (C18): one plain Drillhole driven through collar edits, survey-table edits, depth-log and
interval-log additions (any order, overlapping, exact and within-tolerance collocation, varying tolerance),
position queries, re-open, GC -- with the dirty-allocation fault (N7) active in a share of the runs.

Reference model: the surveyed path (station directions from azimuth / dip, each leg along the mean of its two
station directions, the last leg's direction beyond the final station) written from the property's text, and an
attribution table  depth -> {log: value},  (from, to) -> {log: value}.
"""

from __future__ import annotations

import math
import random

import numpy as np

from . import rawgeoh5
from .kernel import H, Sim, Violation
from .scenarios import BaseScenario

KINDS = {"set_collar": 5, "set_surveys": 6, "add_depth": 14, "add_interval": 12, "add_both": 3, "add_many": 5, "query": 8, "set_tol": 2, "bad_add": 3,
         "reopen": 5, "reopen_same": 1, "gc": 3, "drop": 2}
POISONS = [None, None, None, "nan", "inf", "-inf", "1e300", "0.0"]
TOLS = [None, None, 1e-4, 1e-2, 0.1, 1.0]
INT_NDV = -2147483648


def direction(az, dip):
    """Unit vector of a station: azimuth clockwise from north, dip positive up from horizontal (-90 = straight down)."""
    a, d = math.radians(az % 360.0), math.radians(dip)
    return np.array([math.sin(a) * math.cos(d), math.cos(a) * math.cos(d), math.sin(d)])


class Path:
    """The surveyed path of the property's text, for one (collar, survey table)."""

    def __init__(self, collar, surveys):
        table = np.asarray(surveys if surveys is not None else [[0.0, 0.0, -90.0]], dtype=np.float32).astype(float)   # the table is stored as 32-bit floats
        aug = np.vstack([table[:1], table])
        aug[0, 0] = 0.0
        self.depths = aug[:, 0]
        dirs = [direction(r[1], r[2]) for r in aug]
        self.legs = [(dirs[k] + dirs[k + 1]) / 2.0 for k in range(len(aug) - 1)]
        self.stations = [np.asarray(collar, dtype=float)]
        for k, leg in enumerate(self.legs):
            self.stations.append(self.stations[-1] + (self.depths[k + 1] - self.depths[k]) * leg)
        # beyond the final station the last leg's direction continues; if that leg has no length and its two stations
        # differ in direction the text does not say which one -- such queries are not judged
        last_len = self.depths[-1] - self.depths[-2]
        self.end_ambiguous = last_len == 0 and not np.allclose(dirs[-1], dirs[-2])
        self.end = self.depths[-1]

    def at(self, depth):
        k = max(int(np.searchsorted(self.depths, depth, side="left")) - 1, 0)
        leg = self.legs[min(k, len(self.legs) - 1)]
        return self.stations[k] + (depth - self.depths[k]) * leg

    def judged(self, depth):
        return not (self.end_ambiguous and depth > self.end)


def close(a, b, scale=1.0):
    a, b = np.asarray(a, dtype=float), np.asarray(b, dtype=float)
    return a.shape == b.shape and bool(np.all(np.isfinite(a))) and bool(np.all(np.abs(a - b) <= 1e-4 * (1.0 + abs(scale))))


class DrillholeScenario(BaseScenario):
    prop = "C18"

    def __init__(self, prop="C18"):
        self.prop = prop       # C12: the same histories with copies of the hole that are edited (the source must not notice, the copy must accept)
        self.expected_probes = ["collar_edit_after_positions", "surveys_edit_after_positions", "depth_exact_match", "depth_near_match", "depth_new", "depth_unsorted",
                                "interval_exact_match", "interval_near_match", "interval_new", "interval_overlap", "depth_then_interval_then_depth", "several_depth_logs_one_call", "zero_length_leg",
                                "single_row_table", "first_station_below_zero", "query_beyond_end", "tol_arg", "tol_attr", "tol_default_changed", "reopen",
                                "bad_add_raised", "no_collar_raised"]
        self.rule = ("one evaluation = one seeded history on a plain Drillhole: collar and survey-table edits (single-row tables, zero-length legs, first station at or "
                     "below depth 0, any azimuth/dip), depth-log and interval-log additions in any order with exact / within-tolerance / new depths and intervals, "
                     "overlaps, tolerance given by argument / attribute / object default, position queries, re-open, GC points; dirty-allocation fault in 5/8 of the "
                     "runs. After every event: desurvey(0) is the collar; queried positions are finite, continuous and equal the reference path; every vertex with a "
                     "DEPTH sits at the reference position of that depth (path at creation or current path); every cell joins the positions of its FROM and TO; "
                     "each added value is attached to its depth / interval and nowhere else. distinct = distinct abstract trace; non-trivial = >= 2 additions and "
                     ">= 1 re-open / GC / collar or survey edit between or after them.")
        self.stubs = ["h5repack (subprocess)", "memory numpy.divide(where=...) leaves unwritten: poison proxy on geoh5py.objects.drillhole.np (fault N7; it fires only where the "
                      "library lets numpy allocate the output -- since repair 650b4fb compute_deviation passes out=, so 'poison_divide' stays 0 on the repaired tree "
                      "while 'poison_configured' counts the runs that carried a poison value)"]
        self.assumptions = ["new depths / intervals are generated either clearly inside the tolerance of exactly one existing entry or clearly outside every tolerance (ambiguous "
                            "collocations have no defined attribution)", "beyond a zero-length last leg whose stations differ in direction positions are not judged",
                            "h5py/HDF5/numpy are trusted; the fault model for numpy is its documented freedom to leave where=False outputs uninitialised"]

    def make_config(self, rng):
        return {"gc": rng.choices(["none", "op", "io"], [3, 4, 3])[0], "gc_density": rng.choice([0.2, 0.5]), "h5repack": "absent", "n_ops": rng.choice([4, 8, 12, 20]),
                "poison": rng.choice(POISONS), "start": rng.choice(["bare", "collar", "full", "full"]), "hold": rng.random() < 0.5, "peek": rng.choice(["always", "sparse"])}

    def simplify_config(self, cfg):
        out = []
        if cfg.get("gc") != "none":
            out.append({**cfg, "gc": "none"})
        if cfg.get("hold"):
            out.append({**cfg, "hold": False})
        return out

    # ------------------------------------------------------------------------------------------
    @staticmethod
    def gen_collar(r):
        return [float(r.randrange(-2000, 2000)) / 2.0 for _ in range(3)]

    @staticmethod
    def gen_surveys(r, sim):
        n = r.choice([1, 1, 2, 3, 4, 5])
        depth = 0.0 if r.random() < 0.5 else float(r.randrange(1, 40))
        rows = []
        for i in range(n):
            if i:
                step = 0.0 if r.random() < 0.12 else float(r.randrange(5, 60))
                if step == 0.0:
                    sim.probe("zero_length_leg")
                depth += step
            rows.append([depth, float(r.choice([-45, 0, 0, 30, 90, 135, 180, 270, 359, 400])), float(r.choice([-90, -90, -75, -60, -45, -10, 0, 30, 90]))])
        if n == 1:
            sim.probe("single_row_table")
        if rows[0][0] > 0:
            sim.probe("first_station_below_zero")
        else:
            sim.probe("zero_length_leg")
        return rows

    # ---- reading the hole
    @staticmethod
    def hole(ws, uid):
        ent = ws.get_entity(uid)[0]
        if ent is None:
            raise Violation("C18", "lookup_lost", f"drillhole {uid} not found", {})
        return ent

    @staticmethod
    def arrays(well):
        n_v = well.n_vertices or 0
        n_c = well.n_cells or 0
        out = {"vertices": np.asarray(well.vertices, dtype=float) if well.vertices is not None else np.zeros((0, 3)),
               "cells": np.asarray(well.cells, dtype=int) if well.cells is not None else np.zeros((0, 2), dtype=int), "logs": {}}
        for child in well.children:
            if not hasattr(child, "values") or child.name in ("Visual Parameters",):
                continue
            vals = child.values
            assoc = getattr(child.association, "name", None)
            if vals is None:
                vals = []
            if isinstance(vals, str):     # a one-element text array reads back as a plain string
                vals = [vals]
            vals = list(vals)
            want = n_v if assoc == "VERTEX" else n_c if assoc == "CELL" else len(vals)
            if len(vals) < want:      # the format allows short arrays: missing tail = no data
                pad = "" if (vals and isinstance(vals[0], str)) or type(child).__name__ == "TextData" else None
                vals = vals + [pad] * (want - len(vals))
            out["logs"][child.name] = {"assoc": assoc, "values": vals, "cls": type(child).__name__}
        return out

    @staticmethod
    def nodata(value, cls):
        if value is None:
            return True
        if cls == "TextData":
            return value in ("", "nan", None)
        if cls == "FloatData":
            return isinstance(value, float) and math.isnan(value) or value != value
        if cls == "IntegerData":
            return int(value) == INT_NDV or value != value
        if cls == "ReferencedData":
            return int(value) in (0, INT_NDV) if value == value else True
        return False

    # ---- the oracle
    def check(self, sim, ws, st, where):
        sim.oracle("hole_follows_model")
        discr = {"where": where.split(":")[0]}
        well = self.hole(ws, st["uid"])
        try:
            self._check(sim, well, st, where, discr)
        finally:
            del well

    def _check(self, sim, well, st, where, discr):  # pylint: disable=too-many-locals,too-many-branches,too-many-statements
        path = Path(st["collar"], st["surveys"]) if st["collar"] is not None else None
        if st["collar"] is not None:
            got = [float(well.collar[k]) for k in ("x", "y", "z")]
            if got != [float(v) for v in st["collar"]]:
                raise Violation("C18", "collar_differs", f"{where}: collar {got}, assigned {st['collar']}", discr)
            zero = np.asarray(well.desurvey(np.array([0.0])), dtype=float)[0]
            if not close(zero, st["collar"]):
                raise Violation("C18", "zero_depth_not_collar", f"{where}: desurvey(0) = {zero.tolist()}, collar {st['collar']}", {**discr, "poison": bool(st["poison"] is not None and not np.all(np.isfinite(zero)))})
        arr = self.arrays(well)
        verts, cells, logs = arr["vertices"], arr["cells"], arr["logs"]
        depth_log = logs.get("DEPTH")
        depth_vals = [None if (v is None or v != v) else float(v) for v in depth_log["values"]] if depth_log else [None] * len(verts)
        if len(depth_vals) != len(verts):
            raise Violation("C18", "depth_length", f"{where}: DEPTH has {len(depth_vals)} entries for {len(verts)} vertices", discr)
        # vertices with a depth  <->  model depth entries
        entry_of = {}
        for i, dep in enumerate(depth_vals):
            if dep is None:
                continue
            cands = [e for e in st["depths"] if abs(e["d"] - dep) <= 1e-5 * (1.0 + abs(dep))]
            if len(cands) != 1:
                raise Violation("C18", "depth_unknown", f"{where}: vertex {i} has DEPTH {dep}, which {'no' if not cands else 'more than one'} added depth explains "
                                f"(added: {sorted(e['d'] for e in st['depths'])})", discr)
            if id(cands[0]) in entry_of:
                raise Violation("C18", "depth_twice", f"{where}: depth {dep} labels vertices {entry_of[id(cands[0])]} and {i}", discr)
            entry_of[id(cands[0])] = i
            spots = [p for p in [cands[0]["pos"]] + ([path.at(cands[0]["d"])] if path is not None and path.judged(cands[0]["d"]) else []) if p is not None]
            if cands[0]["pos"] is not None and not any(close(verts[i], p, dep) for p in spots):
                raise Violation("C18", "vertex_off_path", f"{where}: vertex {i} of depth {dep} is at {verts[i].tolist()}, its position on the path is {np.asarray(spots[0]).tolist()}",
                                {**discr, "finite": bool(np.all(np.isfinite(verts[i])))})
        missing = [e["d"] for e in st["depths"] if id(e) not in entry_of]
        if missing:
            raise Violation("C18", "depth_lost", f"{where}: added depths {missing} label no vertex (DEPTH = {depth_vals})", discr)
        # cells <-> model intervals
        frm, to_ = logs.get("FROM"), logs.get("TO")
        n_cells = len(cells)
        if st["intervals"] and (frm is None or to_ is None):
            raise Violation("C18", "interval_lost", f"{where}: FROM / TO missing with {len(st['intervals'])} intervals added", discr)
        cell_of = {}
        for c in range(n_cells):
            f_v, t_v = frm["values"][c], to_["values"][c]
            if f_v is None or t_v is None or f_v != f_v or t_v != t_v:
                raise Violation("C18", "interval_unlabelled", f"{where}: cell {c} has FROM/TO {f_v}/{t_v}", discr)
            cands = [e for e in st["intervals"] if abs(e["f"] - f_v) <= 1e-5 * (1 + abs(f_v)) and abs(e["t"] - t_v) <= 1e-5 * (1 + abs(t_v))]
            if len(cands) != 1:
                raise Violation("C18", "interval_unknown", f"{where}: cell {c} is labelled [{f_v}, {t_v}], which {'no' if not cands else 'more than one'} added interval explains", discr)
            if id(cands[0]) in cell_of:
                raise Violation("C18", "interval_twice", f"{where}: interval [{f_v}, {t_v}] labels cells {cell_of[id(cands[0])]} and {c}", discr)
            cell_of[id(cands[0])] = c
            ent = cands[0]
            for end, key, idx in (("from", "f", 0), ("to", "t", 1)):
                v_i = int(cells[c, idx])
                if v_i >= len(verts):
                    raise Violation("C18", "cell_index", f"{where}: cell {c} refers to vertex {v_i} of {len(verts)}", discr)
                spots = [p for p in [ent["pos_" + key]] + ([path.at(ent[key])] if path is not None and path.judged(ent[key]) else []) if p is not None]
                if ent["pos_" + key] is not None and not any(close(verts[v_i], p, ent[key]) for p in spots):
                    raise Violation("C18", "cell_off_path", f"{where}: cell {c} [{f_v}, {t_v}] has its {end} end at {verts[v_i].tolist()}, the position of depth {ent[key]} is "
                                    f"{np.asarray(spots[0]).tolist()}", {**discr, "finite": bool(np.all(np.isfinite(verts[v_i])))})
        lost = [(e["f"], e["t"]) for e in st["intervals"] if id(e) not in cell_of]
        if lost:
            raise Violation("C18", "interval_lost", f"{where}: added intervals {lost} label no cell", discr)
        # values stay attached
        for name, info in st["logs"].items():
            log = logs.get(name)
            if log is None:
                raise Violation("C18", "log_lost", f"{where}: log {name!r} is no longer a child of the hole", discr)
            vals, cls = log["values"], log["cls"]
            if info["kind"] == "depth":
                want = {entry_of[id(e)]: e["vals"][name] for e in st["depths"] if name in e["vals"]}
                count = len(verts)
            else:
                want = {cell_of[id(e)]: e["vals"][name] for e in st["intervals"] if name in e["vals"]}
                count = n_cells
            if len(vals) != count:
                raise Violation("C18", "log_length", f"{where}: log {name!r} has {len(vals)} values for {count} {'vertices' if info['kind'] == 'depth' else 'cells'}", {**discr, "kind": info["kind"]})
            for i in range(count):
                got = vals[i]
                if i in want:
                    exp = want[i]
                    same = (got == exp) if isinstance(exp, str) else (got is not None and got == got and abs(float(got) - float(exp)) <= 1e-6 * (1 + abs(float(exp))))
                    if not same:
                        raise Violation("C18", "value_detached", f"{where}: log {name!r} holds {got!r} at {'vertex' if info['kind'] == 'depth' else 'cell'} {i} "
                                        f"({'depth ' + str(depth_vals[i]) if info['kind'] == 'depth' else 'interval'}), the value added there is {exp!r}; values {vals}",
                                        {**discr, "kind": info["kind"], "dtype": info["dtype"]})
                elif not self.nodata(got, cls):
                    raise Violation("C18", "value_stray", f"{where}: log {name!r} holds {got!r} at {'vertex' if info['kind'] == 'depth' else 'cell'} {i} where nothing was added; values {vals}",
                                    {**discr, "kind": info["kind"], "dtype": info["dtype"]})

    # ------------------------------------------------------------------------------------------
    def execute(self, seed, program=None):  # pylint: disable=too-many-locals,too-many-branches,too-many-statements
        from geoh5py import Workspace
        from geoh5py.objects import Drillhole

        rng = random.Random(H(seed, "program"))
        if program is None:
            cfg, ops = self.make_config(rng), None
        else:
            cfg, ops = program["config"], program["ops"]
        sim = Sim(seed, cfg)
        executed, trace = [], []
        status, violation = "ok", None
        n_add = n_fault = 0
        after_add = False
        st = {"collar": None, "surveys": None, "depths": [], "intervals": [], "logs": {}, "slots": {}, "poison": cfg.get("poison"), "tol": 1e-2, "queried": False,
              "history": []}
        ws = None
        with sim.running():
            try:
                path = sim.path("d.geoh5")
                ws = Workspace.create(path, ga_version="4.2", contributors=["sim"])
                r0 = random.Random(H(seed, "build"))
                if cfg.get("poison") is not None:
                    sim.probe("poison_configured")
                sim.begin_op(H(seed, "ids"))
                kwargs = {"name": "well"}
                if cfg["start"] in ("collar", "full"):
                    st["collar"] = self.gen_collar(r0)
                    kwargs["collar"] = list(st["collar"])
                if cfg["start"] == "full":
                    st["surveys"] = self.gen_surveys(r0, sim)
                    kwargs["surveys"] = np.asarray(st["surveys"])
                well = Drillhole.create(ws, **kwargs)
                st["uid"] = well.uid
                if cfg.get("hold"):
                    st["slots"]["well"] = well
                del well
                sim.end_op()
                self.check(sim, ws, st, "create:after")
                n_ops = len(ops) if ops is not None else cfg["n_ops"]
                for i in range(n_ops):
                    if ops is not None:
                        op = ops[i]
                    else:
                        weights = {**KINDS, "copy_edit": 10 if self.prop == "C12" else 1}
                        kinds = sorted(weights)
                        op = {"id": i, "k": rng.choices(kinds, [weights[k] for k in kinds])[0], "sub": rng.getrandbits(64)}
                    executed.append(op)
                    kind = op["k"]
                    r = random.Random(H(op["sub"], "args"))
                    sim.begin_op(op["sub"])
                    try:
                        res = getattr(self, "do_" + kind)(sim, ws, st, cfg, r, op["id"])
                    finally:
                        sim.end_op()
                    if isinstance(res, tuple):
                        ws, outcome = res
                    else:
                        outcome = res
                    sim.drain_warnings()
                    if kind.startswith("add_") and outcome.startswith("ok"):
                        n_add += 1
                        after_add = True
                    elif kind in ("gc", "reopen", "reopen_same", "drop", "set_collar", "set_surveys"):
                        n_fault += 1 if after_add else 0
                        if kind in ("gc", "reopen", "reopen_same", "drop"):
                            sim.fault("ev:" + kind)
                    trace.append(f"{kind}:{outcome}")
                    sim.record("op", op["id"], kind, outcome, len(st["depths"]), len(st["intervals"]))
                    # looking fills the hole's caches (positions, values): in "sparse" runs most events go unobserved
                    if cfg.get("peek", "always") == "always" or random.Random(H(op["sub"], "peek")).random() < 0.35:
                        self.check(sim, ws, st, f"{kind}:after")
                    if sim.gc_mode == "op" and random.Random(H(op["sub"], "gcop")).random() < sim.gc_density:
                        sim.collect("op")
                st["slots"].clear()
                ws.close()
                ws = Workspace(path, mode="r")
                self.check(sim, ws, st, "final:re-opened")
                ws.close()
            except Violation as vio:
                violation = {"prop": vio.prop, "tag": vio.tag, "detail": vio.detail, "discr": vio.discr, "event": sim.events}
                sim.record("violation", vio.prop, vio.tag, vio.discr)
                status = "violation" if vio.prop == self.prop else "foreign"
            stats = {"events": sim.events, "ops": len(executed), "faults": dict(sim.faults), "probes": dict(sim.probes), "oracle_evals": dict(sim.oracle_evals),
                     "trace_hash": rawgeoh5.sha([cfg["start"], trace]), "nontrivial": n_add >= 2 and n_fault >= 1, "states": [], "clock_lo": sim.clock.lo,
                     "clock_hi": sim.clock.hi, "cell": f"{cfg['start']}/{cfg.get('poison')}"}
            digest = sim.digest()
            st["slots"].clear()
            try:
                if ws is not None and ws._geoh5:  # pylint: disable=protected-access
                    ws.close()
            except Exception:  # pylint: disable=broad-except
                pass
        return {"status": status, "violation": violation, "suspect": None, "program": {"config": cfg, "ops": executed}, "stats": stats, "digest": digest}

    # ---- operations
    def do_set_collar(self, sim, ws, st, cfg, r, op_id):
        well = self.hole(ws, st["uid"])
        new = self.gen_collar(r)
        form = r.choice(["list", "array"])
        well.collar = new if form == "list" else np.asarray(new)
        del well
        st["collar"] = new
        if st["queried"]:
            sim.probe("collar_edit_after_positions")
        return "ok"

    def do_set_surveys(self, sim, ws, st, cfg, r, op_id):
        well = self.hole(ws, st["uid"])
        rows = self.gen_surveys(r, sim)
        well.surveys = rows if r.random() < 0.3 else np.asarray(rows)
        del well
        st["surveys"] = rows
        if st["queried"]:
            sim.probe("surveys_edit_after_positions")
        return "ok"

    def do_set_tol(self, sim, ws, st, cfg, r, op_id):
        well = self.hole(ws, st["uid"])
        tol = r.choice([1e-4, 1e-2, 0.1, 1.0])
        well.default_collocation_distance = tol
        del well
        st["tol"] = tol
        sim.probe("tol_default_changed")
        return "ok"

    def _tolerance(self, sim, well, r):
        """-> (effective tolerance, kwargs for add_data, attribute entry)"""
        how = r.choice(["default", "default", "arg", "attr"])
        if how == "default":
            # the object's default is an in-memory setting (not stored): the one in effect is read off the object
            return float(well.default_collocation_distance), {}, {}
        tol = r.choice([1e-4, 1e-2, 0.1, 1.0])
        if how == "arg":
            sim.probe("tol_arg")
            return tol, {"collocation_distance": tol}, {}
        sim.probe("tol_attr")
        return tol, {}, {"collocation_distance": tol}

    @staticmethod
    def _gap(st):
        """Largest tolerance in play: generated depths keep clear of every existing entry by 3 x this."""
        return 3.0

    def gen_depths(self, sim, st, r, tol, existing=None):
        """New depth-log depths: (depth as passed, model entry or None)."""
        out, used = [], []
        n = r.randint(1, 5)
        existing = st["depths"] if existing is None else existing
        for _ in range(n):
            mode = r.choices(["exact", "near", "new"], [2, 2, 5])[0] if existing else "new"
            if mode in ("exact", "near"):
                free = [e for e in existing if all(e is not u for u in used)
                        and all(abs(o["d"] - e["d"]) > 3 * tol for o in existing if o is not e)]
                if not free:
                    mode = "new"
                else:
                    ent = free[r.randrange(len(free))]
                    used.append(ent)
                    dep = ent["d"] if mode == "exact" else ent["d"] + r.choice([-0.4, 0.4]) * tol
                    if dep < 0:
                        dep = ent["d"]
                    out.append((dep, ent))
                    sim.probe("depth_exact_match" if mode == "exact" else "depth_near_match")
                    continue
            for _try in range(20):
                dep = float(r.randrange(0, 1200)) / 4.0
                if all(abs(dep - e["d"]) > self._gap(st) for e in existing) and all(abs(dep - o[0]) > self._gap(st) for o in out):
                    out.append((dep, None))
                    sim.probe("depth_new")
                    break
        # keep the passed depths pairwise apart
        r.shuffle(out)
        if [o[0] for o in out] != sorted(o[0] for o in out):
            sim.probe("depth_unsorted")
        return out

    def gen_intervals(self, sim, st, r, tol, existing=None):
        out, used = [], []
        n = r.randint(1, 4)
        existing = st["intervals"] if existing is None else existing

        def dist(a, b):
            return math.hypot(a[0] - b[0], a[1] - b[1])

        for _ in range(n):
            mode = r.choices(["exact", "near", "new"], [2, 2, 5])[0] if existing else "new"
            if mode in ("exact", "near"):
                free = [e for e in existing if all(e is not u for u in used)
                        and all(dist((o["f"], o["t"]), (e["f"], e["t"])) > 3 * tol for o in existing if o is not e)]
                if not free:
                    mode = "new"
                else:
                    ent = free[r.randrange(len(free))]
                    used.append(ent)
                    shift = 0.0 if mode == "exact" else 0.3 * tol
                    out.append(((ent["f"] + shift, ent["t"] - shift if ent["t"] - shift > ent["f"] + shift else ent["t"]), ent))
                    sim.probe("interval_exact_match" if mode == "exact" else "interval_near_match")
                    continue
            for _try in range(20):
                frm = float(r.randrange(0, 1000)) / 4.0
                if existing and r.random() < 0.4:
                    frm = r.choice(existing)[r.choice(["f", "t"])]      # share an end with an existing interval / overlap it
                to_ = frm + float(r.randrange(1, 120)) / 4.0
                cand = (frm, to_)
                if all(dist(cand, (e["f"], e["t"])) > self._gap(st) for e in existing) and all(dist(cand, o[0]) > self._gap(st) for o in out):
                    if any(e["f"] < to_ and frm < e["t"] for e in existing):
                        sim.probe("interval_overlap")
                    out.append((cand, None))
                    sim.probe("interval_new")
                    break
        r.shuffle(out)
        return out

    @staticmethod
    def gen_value(dtype, op_id, j):
        if dtype == "float":
            return float(op_id * 100 + j) + 0.5
        if dtype == "int":
            return op_id * 100 + j + 1
        if dtype == "ref":
            return (op_id + j) % 3 + 1
        return f"t{op_id}_{j}"

    def _spec(self, dtype, values):
        if dtype == "float":
            return {"values": np.asarray(values, dtype=float)}
        if dtype == "int":
            return {"values": np.asarray(values, dtype="int32")}
        if dtype == "ref":
            return {"values": np.asarray(values, dtype="int32"), "type": "referenced", "value_map": {1: "a", 2: "b", 3: "c"}}
        return {"values": np.asarray(values), "type": "text"}

    def _add(self, sim, ws, st, cfg, r, op_id, kinds):
        well = self.hole(ws, st["uid"])
        tol, kwargs, attr = self._tolerance(sim, well, r)
        data, plan = {}, []
        # logs of one call are applied one after the other: later logs may match what earlier ones of the same call added
        tent_depths, tent_intervals = list(st["depths"]), list(st["intervals"])
        for j, kind in enumerate(kinds):
            name = f"{'d' if kind == 'depth' else 'i'}{op_id}{'' if len(kinds) == 1 else '_' + str(j)}"
            if kind == "depth":
                dtype = r.choices(["float", "int", "ref", "text"], [6, 2, 2, 2])[0]
                items = self.gen_depths(sim, st, r, tol, tent_depths)
                if not items:
                    continue
                vals = [self.gen_value(dtype, op_id, 10 * j + i) for i in range(len(items))]
                spec = self._spec(dtype, vals)
                spec["depth"] = np.asarray([it[0] for it in items], dtype=float)
                for idx, (where, ent) in enumerate(items):
                    if ent is None:
                        ent = {"d": float(where), "pos": None, "vals": {}, "new": True}
                        tent_depths.append(ent)
                        items[idx] = (where, ent)
            else:
                dtype = r.choices(["float", "int", "ref", "text"], [5, 2, 2, 3])[0]
                items = self.gen_intervals(sim, st, r, tol, tent_intervals)
                if not items:
                    continue
                vals = [self.gen_value(dtype, op_id, 10 * j + i) for i in range(len(items))]
                spec = self._spec(dtype, vals)
                ft = [[it[0][0], it[0][1]] for it in items]
                spec["from-to"] = ft if r.random() < 0.3 else np.asarray(ft, dtype=float)
                for idx, (where, ent) in enumerate(items):
                    if ent is None:
                        ent = {"f": float(where[0]), "t": float(where[1]), "pos_f": None, "pos_t": None, "vals": {}, "new": True}
                        tent_intervals.append(ent)
                        items[idx] = (where, ent)
            spec.update(attr)
            data[name] = spec
            plan.append((kind, name, dtype, items, vals))
        if not data:
            del well
            return "skipped"
        if len([p for p in plan if p[0] == "depth"]) > 1:
            sim.probe("several_depth_logs_one_call")
        expect_raise = st["collar"] is None
        try:
            well.add_data(data, **kwargs)
        except Exception as err:  # pylint: disable=broad-except
            del well
            if expect_raise:
                sim.probe("no_collar_raised")
                return "raised:" + type(err).__name__
            raise Violation("C18", "add_raises", f"add_data({ {k: sorted(v) for k, v in data.items()} }) raised {type(err).__name__}: {err}",
                            {"exc": type(err).__name__, "kinds": "+".join(kinds)}) from err
        del well
        if expect_raise:
            # without a collar there is no path; an accepted addition is not judged further
            return "accepted_without_collar"
        path = Path(st["collar"], st["surveys"])
        st["queried"] = True
        st["depths"], st["intervals"] = tent_depths, tent_intervals
        for kind, name, dtype, items, vals in plan:
            st["logs"][name] = {"kind": kind, "dtype": dtype}
            for (where, ent), val in zip(items, vals):
                if ent.pop("new", False):
                    if kind == "depth":
                        ent["pos"] = path.at(ent["d"]) if path.judged(ent["d"]) else None
                    elif path.judged(ent["f"]) and path.judged(ent["t"]):
                        ent["pos_f"], ent["pos_t"] = path.at(ent["f"]), path.at(ent["t"])
                ent["vals"][name] = val
        st["history"].append("+".join(kinds))
        if st["history"][-3:] == ["depth", "interval", "depth"]:
            sim.probe("depth_then_interval_then_depth")
        return "ok:" + "+".join(f"{k}{len(i)}" for k, _, _, i, _ in plan)

    def do_add_depth(self, sim, ws, st, cfg, r, op_id):
        return self._add(sim, ws, st, cfg, r, op_id, ["depth"])

    def do_add_interval(self, sim, ws, st, cfg, r, op_id):
        return self._add(sim, ws, st, cfg, r, op_id, ["interval"])

    def do_add_both(self, sim, ws, st, cfg, r, op_id):
        kinds = ["depth", "interval"]
        r.shuffle(kinds)
        return self._add(sim, ws, st, cfg, r, op_id, kinds)

    def do_add_many(self, sim, ws, st, cfg, r, op_id):
        # several logs in ONE add_data call (several depth logs, interval logs in between)
        return self._add(sim, ws, st, cfg, r, op_id, [r.choice(["depth", "depth", "interval"]) for _ in range(r.randint(2, 4))])

    def do_bad_add(self, sim, ws, st, cfg, r, op_id):
        well = self.hole(ws, st["uid"])
        which = r.choice(["shape_depth", "shape_interval", "no_depth", "name_taken"])
        if which == "shape_depth":
            data = {f"b{op_id}": {"depth": np.array([1.0, 2.0, 3.0]), "values": np.array([1.0, 2.0])}}
        elif which == "shape_interval":
            data = {f"b{op_id}": {"from-to": np.array([[1.0, 2.0], [3.0, 4.0]]), "values": np.array([1.0])}}
        elif which == "no_depth":
            data = {f"b{op_id}": {"values": np.array([1.0, 2.0])}}
        else:
            names = sorted(st["logs"])
            if not names:
                del well
                return "skipped"
            data = {names[r.randrange(len(names))]: {"depth": np.array([7.0]), "values": np.array([1.0])}}
        try:
            well.add_data(data)
        except Exception as err:  # pylint: disable=broad-except
            del well
            sim.probe("bad_add_raised")
            return "raised:" + type(err).__name__
        del well
        raise Violation("C18", "bad_add_accepted", f"add_data accepted {which}", {"which": which})

    def do_query(self, sim, ws, st, cfg, r, op_id):
        if st["collar"] is None:
            return "skipped"
        well = self.hole(ws, st["uid"])
        path = Path(st["collar"], st["surveys"])
        depths = [0.0] + [float(d) for d in path.depths[1:]] + [float(r.randrange(0, 1600)) / 4.0 for _ in range(4)] + [float(path.end) + float(r.randrange(1, 200))]
        mids = [(a + b) / 2.0 for a, b in zip(path.depths[:-1], path.depths[1:])]
        depths += [float(m) for m in mids]
        depths = sorted(set(depths))
        if any(d > path.end for d in depths):
            sim.probe("query_beyond_end")
        discr = {"where": "query", "rows": len(path.depths) - 1}
        if r.random() < 0.4:
            # single depths, in the forms a caller has at hand; the array query below then sees what they left behind
            sim.probe("query_scalar")
            for _ in range(1 + r.randrange(3)):
                dep = depths[r.randrange(len(depths))]
                form = ("float", "int", "np_scalar", "zero_d")[r.randrange(4)]
                if form == "int":
                    dep = float(int(dep))
                arg = {"float": float(dep), "int": int(dep), "np_scalar": np.float64(dep), "zero_d": np.asarray(dep)}[form]
                one = np.asarray(well.desurvey(arg), dtype=float).reshape(-1, 3)
                if one.shape != (1, 3):
                    raise Violation("C18", "query_shape", f"desurvey of one {form} depth has shape {one.shape}", {**discr, "form": form})
                if path.judged(dep) and not (np.all(np.isfinite(one[0])) and close(one[0], path.at(dep), dep)):
                    raise Violation("C18", "position_off_path", f"desurvey({dep}) [{form}] = {one[0].tolist()}, the surveyed path gives {path.at(dep).tolist()} (collar {st['collar']}, surveys {st['surveys']})",
                                    {**discr, "beyond": dep > path.end})
        got = np.asarray(well.desurvey(depths if r.random() < 0.4 else np.asarray(depths)), dtype=float)
        eps = 0.125
        got_eps = np.asarray(well.desurvey(np.asarray(depths) + eps), dtype=float)
        del well
        st["queried"] = True
        if got.shape != (len(depths), 3):
            raise Violation("C18", "query_shape", f"desurvey of {len(depths)} depths has shape {got.shape}", discr)
        for dep, pos, pos_eps in zip(depths, got, got_eps):
            if not np.all(np.isfinite(pos)):
                raise Violation("C18", "position_not_finite", f"desurvey({dep}) = {pos.tolist()} (collar {st['collar']}, surveys {st['surveys']})", {**discr, "poison": st["poison"]})
            if path.judged(dep) and not close(pos, path.at(dep), dep):
                raise Violation("C18", "position_off_path", f"desurvey({dep}) = {pos.tolist()}, the surveyed path gives {path.at(dep).tolist()} (collar {st['collar']}, surveys {st['surveys']})",
                                {**discr, "beyond": dep > path.end})
            step = float(np.linalg.norm(pos_eps - pos))
            if not step <= eps * (1 + 1e-6) + 1e-9:
                raise Violation("C18", "position_jumps", f"desurvey moves {step} between depths {dep} and {dep + eps}", discr)
        return "ok"

    def do_copy_edit(self, sim, ws, st, cfg, r, op_id):
        """A copy of the hole next to it receives a depth log of its own and is removed again: the copy accepts it (C12), and the
        source keeps exactly its depths and values (judged by the check that follows every event)."""
        if st["collar"] is None or not st["depths"]:
            return "skipped"
        well = self.hole(ws, st["uid"])
        try:
            new = well.copy()
        except Exception as err:  # pylint: disable=broad-except
            raise Violation("C12", "copy_raises", f"copying a plain drillhole with depth logs raised {type(err).__name__}: {str(err)[:100]}", {"cls": "Drillhole", "exc": type(err).__name__}) from None
        depth = max(e["d"] for e in st["depths"]) + 3.0
        try:
            new.add_data({f"cp{op_id}": {"depth": np.array([depth]), "values": np.array([1.0])}})
        except Exception as err:  # pylint: disable=broad-except
            raise Violation("C12", "copy_edit_refused", f"adding a depth log to the copy of a drillhole raised {type(err).__name__}: {str(err)[:100]} "
                            "(the copy shares its DEPTH data with the source)", {"cls": "Drillhole", "exc": type(err).__name__}) from None
        ws.remove_entity(new)
        del new, well
        sim.probe("copy_edited")
        return "ok"

    def do_gc(self, sim, ws, st, cfg, r, op_id):
        sim.collect("event")
        return "ok"

    def do_drop(self, sim, ws, st, cfg, r, op_id):
        st["slots"].clear()
        return "ok"

    def do_reopen(self, sim, ws, st, cfg, r, op_id, same=False):
        from geoh5py import Workspace

        st["slots"].clear()
        path = ws.h5file
        ws.close()
        if same:
            ws.open()
        else:
            ws = Workspace(path, mode="r+")
        sim.probe("reopen")
        return ws, "ok"

    def do_reopen_same(self, sim, ws, st, cfg, r, op_id):
        return self.do_reopen(sim, ws, st, cfg, r, op_id, same=True)
