"""
rawgeoh5 -- an independent reader / validator / digester for geoh5 files.

Written from the format documentation (docs/content/geoh5_format) with plain h5py.
It deliberately imports nothing from geoh5py: it is the oracle for file structure
(C02, C04 file clause), stored values (C01, C03, C12) and per-node digests (C09, C10).

Works on a path (closed file) or on an already open h5py.File (side-effect free).
"""

from __future__ import annotations

import hashlib
import json
import math
import re
from contextlib import contextmanager

import h5py
import numpy as np

UID_RE = re.compile(r"^\{[0-9a-f]{8}-[0-9a-f]{4}-[0-9a-f]{4}-[0-9a-f]{4}-[0-9a-f]{12}\}$")
FLOAT_NDV = 1.175494351e-38
INT_NDV = -2147483648
ZERO_UID = "{00000000-0000-0000-0000-000000000000}"

KINDS = ("Data", "Groups", "Objects")
TYPE_KINDS = ("Data types", "Group types", "Object types")
CHILD_KINDS = {"Groups": ("Data", "Groups", "Objects"), "Objects": ("Data",), "Data": ()}


# ----------------------------------------------------------------------------- canonical values
def canon(value):
    """JSON-able canonical form of anything h5py returns (NaN-safe, bytes->str)."""
    if isinstance(value, bytes):
        try:
            return value.decode("utf-8")
        except UnicodeDecodeError:
            return "hex:" + value.hex()
    if isinstance(value, str):
        return value
    if isinstance(value, (bool, np.bool_)):
        return int(value)
    if isinstance(value, (int, np.integer)):
        return int(value)
    if isinstance(value, (float, np.floating)):
        value = float(value)
        if math.isnan(value):
            return "nan"
        if math.isinf(value):
            return "inf" if value > 0 else "-inf"
        return value
    if isinstance(value, np.void):
        if value.dtype.names:
            return [canon(value[n]) for n in value.dtype.names]
        return "hex:" + value.tobytes().hex()
    if isinstance(value, np.ndarray):
        if value.dtype.names:
            return [[canon(row[n]) for n in value.dtype.names] for row in value.reshape(-1)]
        if value.dtype.kind == "V":
            return ["hex:" + v.tobytes().hex() for v in value.reshape(-1)]
        return [canon(v) for v in value.tolist()]
    if isinstance(value, (list, tuple)):
        return [canon(v) for v in value]
    if isinstance(value, dict):
        return {str(k): canon(v) for k, v in value.items()}
    if value is None:
        return None
    if isinstance(value, h5py.Empty):
        return None
    return repr(value)


def sha(obj) -> str:
    return hashlib.sha256(
        json.dumps(obj, sort_keys=True, separators=(",", ":"), default=repr).encode()
    ).hexdigest()[:16]


def _addr(obj) -> int:
    return h5py.h5o.get_info(obj.id).addr


@contextmanager
def _opened(src):
    if isinstance(src, h5py.File):
        yield src
    else:
        handle = h5py.File(str(src), "r")
        try:
            yield handle
        finally:
            handle.close()


# ----------------------------------------------------------------------------- reading
def _read_attrs(obj) -> dict:
    out = {}
    for key in obj.attrs.keys():
        try:
            out[key] = canon(obj.attrs[key])
        except Exception as err:  # unreadable attribute: record, do not die
            out[key] = f"<unreadable:{type(err).__name__}>"
    return out


def _read_dataset(dset) -> dict:
    try:
        value = dset[()]
    except Exception as err:
        return {"dtype": str(dset.dtype), "shape": list(dset.shape), "value": f"<unreadable:{type(err).__name__}>", "attrs": _read_attrs(dset)}
    if isinstance(value, np.ndarray) and value.dtype.kind == "f":
        # keep raw floats: NDV decoding is the decoder's job
        pass
    return {
        "dtype": _dtype_str(dset.dtype),
        "shape": list(dset.shape),
        "value": canon(value),
        "attrs": _read_attrs(dset),
    }


def _dtype_str(dtype) -> str:
    if dtype.names:
        return "[" + ",".join(f"{n}:{_dtype_str(dtype[n])}" for n in dtype.names) + "]"
    if dtype.kind == "O":
        return "vlen"
    return dtype.str


def _links(grp) -> dict:
    """name -> ('hard', addr) | ('soft', path) | ('external', ...) | ('dangling', None)"""
    out = {}
    for name in grp.keys():
        link = grp.get(name, getlink=True)
        if isinstance(link, h5py.HardLink):
            try:
                out[name] = ("hard", _addr(grp[name]))
            except Exception:
                out[name] = ("dangling", None)
        elif isinstance(link, h5py.SoftLink):
            out[name] = ("soft", link.path)
        else:
            out[name] = ("external", repr(link))
    return out


def _read_node(grp, kind: str) -> dict:
    node = {
        "addr": _addr(grp),
        "rc": h5py.h5o.get_info(grp.id).rc,
        "attrs": _read_attrs(grp),
        "datasets": {},
        "children": {},
        "other_groups": {},
        "type": None,
        "pgs": None,
        "concat": None,
    }
    for name in grp.keys():
        link = grp.get(name, getlink=True)
        if name == "Type":
            if isinstance(link, h5py.HardLink):
                try:
                    tnode = grp[name]
                    node["type"] = ("hard", _addr(tnode), canon(tnode.attrs.get("ID")))
                except Exception:
                    node["type"] = ("dangling", None, None)
            elif isinstance(link, h5py.SoftLink):
                node["type"] = ("soft", link.path, None)
            else:
                node["type"] = ("external", None, None)
            continue
        if not isinstance(link, h5py.HardLink):
            node["other_groups"][name] = ("nonhard", repr(link))
            continue
        try:
            item = grp[name]
        except Exception:
            node["other_groups"][name] = ("dangling", None)
            continue
        if isinstance(item, h5py.Dataset):
            node["datasets"][name] = _read_dataset(item)
        elif name in KINDS:
            node["children"][name] = _links(item)
        elif name == "PropertyGroups":
            pgs = {}
            for pg_name in item.keys():
                try:
                    pgs[pg_name] = _read_attrs(item[pg_name])
                except Exception:
                    pgs[pg_name] = {"<unreadable>": True}
            node["pgs"] = pgs
        elif name == "Concatenated Data":
            node["concat"] = _read_concat(item)
        else:
            node["other_groups"][name] = ("group", sorted(item.keys()))
    return node


def _read_concat(grp) -> dict:
    out = {"index": {}, "data": {}, "attributes": None, "attr_encoding": None, "other": {}}
    for name in grp.keys():
        item = grp[name]
        if name == "Index" and isinstance(item, h5py.Group):
            for label in item.keys():
                out["index"][label] = _read_dataset(item[label])
        elif name == "Data" and isinstance(item, h5py.Group):
            for label in item.keys():
                out["data"][label] = _read_dataset(item[label])
        elif name in ("Attributes", "Attributes Jsons") and isinstance(item, h5py.Dataset):
            raw = item[()]
            records = None
            try:
                if name == "Attributes":
                    if isinstance(raw, np.ndarray):
                        raw = raw.reshape(-1)[0]
                    records = json.loads(canon(raw))["Attributes"]
                else:
                    records = [json.loads(canon(v)) for v in np.asarray(raw).reshape(-1)]
            except Exception as err:
                records = f"<undecodable:{type(err).__name__}>"
            if out["attributes"] is not None:
                out["other"]["second-attributes:" + name] = True
            out["attributes"] = records
            out["attr_encoding"] = name
        elif isinstance(item, h5py.Dataset):
            out["data"][name] = _read_dataset(item)  # Surveys / Trace / Property Group IDs live at this level
        else:
            out["other"][name] = sorted(item.keys())
    return out


def read(src, kinds=KINDS, types: bool = True) -> dict:
    """Read a whole geoh5 file into plain Python data (or only some flat containers: a cheaper view for per-event checks)."""
    with _opened(src) as h5:
        raw = {"projects": list(h5.keys()), "project": None}
        if len(raw["projects"]) != 1:
            return raw
        pname = raw["projects"][0]
        proj = h5[pname]
        raw["project"] = pname
        raw["attrs"] = _read_attrs(proj)
        raw["top"] = {}
        raw["flat"] = {k: {} for k in KINDS}
        raw["types"] = {k: {} for k in TYPE_KINDS}
        raw["root"] = None
        raw["missing"] = []
        for name in proj.keys():
            link = proj.get(name, getlink=True)
            raw["top"][name] = type(link).__name__
        for kind in kinds:
            if kind not in proj or not isinstance(proj.get(kind, getlink=True), h5py.HardLink) or not isinstance(proj[kind], h5py.Group):
                raw["missing"].append(kind)
                continue
            for name in proj[kind].keys():
                link = proj[kind].get(name, getlink=True)
                if not isinstance(link, h5py.HardLink):
                    raw["flat"][kind][name] = {"nonhard": repr(link)}
                    continue
                item = proj[kind][name]
                if not isinstance(item, h5py.Group):
                    raw["flat"][kind][name] = {"nongroup": True}
                    continue
                raw["flat"][kind][name] = _read_node(item, kind)
        if not types:
            pass
        elif "Types" not in proj or not isinstance(proj["Types"], h5py.Group):
            raw["missing"].append("Types")
        else:
            for tkind in TYPE_KINDS:
                if tkind not in proj["Types"] or not isinstance(proj["Types"][tkind], h5py.Group):
                    raw["missing"].append("Types/" + tkind)
                    continue
                for name in proj["Types"][tkind].keys():
                    item = proj["Types"][tkind][name]
                    tnode = {"addr": _addr(item), "attrs": _read_attrs(item), "datasets": {}}
                    if isinstance(item, h5py.Group):
                        for dname in item.keys():
                            sub = item[dname]
                            if isinstance(sub, h5py.Dataset):
                                tnode["datasets"][dname] = _read_dataset(sub)
                            else:
                                tnode["datasets"][dname] = {"group": sorted(sub.keys())}
                    raw["types"][tkind][name] = tnode
        if "Root" in proj:
            link = proj.get("Root", getlink=True)
            if isinstance(link, h5py.HardLink):
                try:
                    raw["root"] = ("hard", _addr(proj["Root"]), canon(proj["Root"].attrs.get("ID")))
                except Exception:
                    raw["root"] = ("dangling", None, None)
            else:
                raw["root"] = ("nonhard", repr(link), None)
        return raw


# ----------------------------------------------------------------------------- validation (Appendix B)
def _type_kind(kind: str) -> str:
    return {"Data": "Data types", "Groups": "Group types", "Objects": "Object types"}[kind]


def validate(raw: dict, concat: bool = True) -> list[tuple[str, str]]:
    """Return a list of (rule, detail) violations of the geoh5 layout."""
    errs: list[tuple[str, str]] = []
    if raw.get("project") is None:
        return [("R1", f"project groups: {raw.get('projects')}")]
    for miss in raw["missing"]:
        errs.append(("R2", f"missing container {miss}"))
    # index of all flat nodes by addr
    addr_of = {}
    for kind in KINDS:
        for name, node in raw["flat"][kind].items():
            if "addr" not in node:
                errs.append(("R4", f"{kind}/{name} is not a hard-linked group: {node}"))
                continue
            addr_of.setdefault(node["addr"], []).append((kind, name))
    type_addr = {}
    for tkind in TYPE_KINDS:
        for name, tnode in raw["types"][tkind].items():
            type_addr[(tkind, name)] = tnode["addr"]
            if not UID_RE.match(name):
                errs.append(("R4", f"Types/{tkind}/{name}: not a uuid name"))
            if tnode["attrs"].get("ID") != name:
                errs.append(("R4", f"Types/{tkind}/{name}: ID attr {tnode['attrs'].get('ID')!r}"))
    # R3 root
    root = raw["root"]
    root_name = None
    if root is None:
        errs.append(("R3", "no Root link"))
    elif root[0] != "hard":
        errs.append(("R3", f"Root link is {root[0]}"))
    else:
        owners = [n for (k, n) in addr_of.get(root[1], []) if k == "Groups"]
        if not owners:
            errs.append(("R3", "Root does not point at a node of the flat Groups container"))
        else:
            root_name = owners[0]
    seen_ids: dict[str, str] = {}
    parents: dict[tuple[str, str], list[str]] = {}
    for kind in KINDS:
        for name, node in raw["flat"][kind].items():
            if "addr" not in node:
                continue
            where = f"{kind}/{name}"
            # R4
            if not UID_RE.match(name):
                errs.append(("R4", f"{where}: not a uuid name"))
            if node["attrs"].get("ID") != name:
                errs.append(("R4", f"{where}: ID attr {node['attrs'].get('ID')!r} != node name"))
            # R9 uniqueness across containers
            if name in seen_ids:
                errs.append(("R9", f"identifier {name} in {seen_ids[name]} and {where}"))
            seen_ids.setdefault(name, where)
            # R5 type link
            typ = node["type"]
            if typ is None:
                errs.append(("R5", f"{where}: no Type link"))
            elif typ[0] != "hard":
                errs.append(("R5", f"{where}: Type link is {typ[0]}"))
            else:
                tname = typ[2]
                want = type_addr.get((_type_kind(kind), tname))
                if want is None:
                    errs.append(("R5", f"{where}: Type {tname} not under Types/{_type_kind(kind)}"))
                elif want != typ[1]:
                    errs.append(("R5", f"{where}: Type link is not the shared type node {tname}"))
            # R11 child container kinds, R6 hard links to the flat node
            for ckind, links in node["children"].items():
                if ckind not in CHILD_KINDS[kind]:
                    if links:
                        errs.append(("R11", f"{where}: has {ckind} children"))
                    continue
                for cname, link in links.items():
                    cnode = raw["flat"][ckind].get(cname)
                    if link[0] != "hard":
                        errs.append(("R6", f"{where}/{ckind}/{cname}: link is {link[0]}"))
                    elif cnode is None or "addr" not in cnode:
                        errs.append(("R6", f"{where}/{ckind}/{cname}: no such node in flat {ckind}"))
                    elif cnode["addr"] != link[1]:
                        errs.append(("R6", f"{where}/{ckind}/{cname}: not the same HDF5 object as flat node"))
                    parents.setdefault((ckind, cname), []).append(where)
            # R10 property groups
            if node["pgs"] is not None:
                if kind != "Objects":
                    errs.append(("R11", f"{where}: PropertyGroups on a {kind} node"))
                kids = set(node["children"].get("Data", {}).keys())
                for pg_name, pg in node["pgs"].items():
                    if pg.get("ID") != pg_name:
                        errs.append(("R4", f"{where}/PropertyGroups/{pg_name}: ID attr {pg.get('ID')!r}"))
                    if pg_name in seen_ids:
                        errs.append(("R9", f"identifier {pg_name} in {seen_ids[pg_name]} and {where}/PropertyGroups"))
                    seen_ids.setdefault(pg_name, where + "/PropertyGroups")
                    props = pg.get("Properties")
                    if props is None:
                        continue
                    if isinstance(props, str):
                        props = [props]
                    if len(set(props)) != len(props):
                        errs.append(("R10", f"{where}/PropertyGroups/{pg_name}: duplicate property"))
                    for prop in props:
                        if prop not in kids:
                            errs.append(("R10", f"{where}/PropertyGroups/{pg_name}: property {prop} is not a child data"))
    # R7 / R8
    for kind in KINDS:
        for name, node in raw["flat"][kind].items():
            if "addr" not in node:
                continue
            if kind == "Groups" and name == root_name:
                if parents.get((kind, name)):
                    errs.append(("R7", f"root {name} has a parent"))
                continue
            plist = parents.get((kind, name), [])
            if len(plist) > 1:
                errs.append(("R7", f"{kind}/{name}: {len(plist)} parents {sorted(plist)}"))
    if root_name is not None:
        reach = set()
        stack = [("Groups", root_name)]
        while stack:
            cur = stack.pop()
            if cur in reach:
                continue
            reach.add(cur)
            node = raw["flat"][cur[0]].get(cur[1])
            if not node or "children" not in node:
                continue
            for ckind, links in node["children"].items():
                for cname in links:
                    stack.append((ckind, cname))
        for kind in KINDS:
            for name, node in raw["flat"][kind].items():
                if "addr" in node and (kind, name) not in reach:
                    errs.append(("R8", f"{kind}/{name} ({node['attrs'].get('Name')!r}) unreachable from Root"))
    if concat:
        for name, node in raw["flat"]["Groups"].items():
            if node.get("concat") is not None:
                errs.extend(validate_concat(node, f"Groups/{name}", seen_ids))
    return errs


def unreachable(raw: dict) -> set:
    """Keys 'Kind/{uid}' of flat nodes not reachable from Root."""
    out = set()
    for rule, detail in validate(raw, concat=False):
        if rule == "R8":
            out.add(detail.split(" ")[0])
    return out


def concat_rows(node: dict) -> dict:
    """label -> list of (start, size, object id, data id)"""
    out = {}
    for label, dset in node["concat"]["index"].items():
        rows = dset["value"]
        if not isinstance(rows, list):
            rows = []
        out[label] = [tuple(r) for r in rows if isinstance(r, list) and len(r) == 4]
    return out


def validate_concat(node: dict, where: str, seen_ids: dict | None = None) -> list[tuple[str, str]]:
    errs = []
    cat = node["concat"]
    rows = concat_rows(node)
    records = cat["attributes"]
    if isinstance(records, str):
        errs.append(("R13", f"{where}: attribute list {records}"))
        records = []
    records = records or []
    ids_ds = node["datasets"].get("Concatenated object IDs")
    object_ids = ids_ds["value"] if ids_ds else []
    if isinstance(object_ids, str):
        object_ids = [object_ids]
    # R12 tiling
    for label, rws in rows.items():
        dset = cat["data"].get(label)
        if dset is None:
            if any(r[1] for r in rws):
                errs.append(("R12", f"{where}: Index/{label} without Data/{label}"))
            continue
        length = dset["shape"][0] if dset["shape"] else 0
        pos = 0
        for start, size, obj, dat in sorted(rws, key=lambda r: (r[0], r[1])):
            if start != pos:
                errs.append(("R12", f"{where}: {label} rows do not tile data: start {start} expected {pos}"))
                break
            pos = start + size
        else:
            if pos != length:
                errs.append(("R12", f"{where}: {label} rows cover {pos} of {length} values"))
        pairs = [(r[2], r[3]) for r in rws]
        if len(set(pairs)) != len(pairs):
            errs.append(("R12", f"{where}: {label} duplicate (object,data) rows"))
    for label in cat["data"]:
        if label not in rows and label not in ("Property Group IDs",):
            errs.append(("R12", f"{where}: Data/{label} without Index/{label}"))
    # R13 one attribute record per entity, unique ids
    rec_ids = [r.get("ID") for r in records if isinstance(r, dict)]
    if len(rec_ids) != len(set(rec_ids)):
        dup = sorted({i for i in rec_ids if rec_ids.count(i) > 1})
        errs.append(("R13", f"{where}: duplicate attribute records {dup}"))
    for rec in records:
        if not isinstance(rec, dict) or "ID" not in rec:
            errs.append(("R13", f"{where}: attribute record without ID: {str(rec)[:80]}"))
    if seen_ids is not None:
        for rid in set(rec_ids):
            if rid in seen_ids:
                errs.append(("R9", f"identifier {rid} in {seen_ids[rid]} and {where}/Concatenated"))
    by_id = {r["ID"]: r for r in records if isinstance(r, dict) and "ID" in r}
    holes = [i for i, r in by_id.items() if "Object Type ID" in r]
    # R14
    if sorted(holes) != sorted(object_ids) or len(set(object_ids)) != len(object_ids):
        errs.append(("R14", f"{where}: Concatenated object IDs {sorted(object_ids)} vs hole records {sorted(holes)}"))
    # R15 property keys resolve, every data record is owned by exactly one hole
    owned = {}
    for hid in holes:
        for key, val in by_id[hid].items():
            if key.startswith("Property:"):
                target = by_id.get(val)
                if target is None:
                    errs.append(("R15", f"{where}: {hid} {key} -> missing record {val}"))
                    continue
                owned.setdefault(val, []).append(hid)
                pname = key[len("Property:"):].replace("⁄", "/")
                if target.get("Name", "").replace("⁄", "/") != pname:
                    errs.append(("R15", f"{where}: {hid} {key} points at data named {target.get('Name')!r}"))
    for rid, rec in by_id.items():
        if "Type ID" in rec:
            if len(owned.get(rid, [])) != 1:
                errs.append(("R15", f"{where}: data record {rid} ({rec.get('Name')!r}) owned by {owned.get(rid, [])}"))
    # every index row refers to live records, every data record with values has a row under its name
    for label, rws in rows.items():
        for start, size, obj, dat in rws:
            if obj not in by_id:
                errs.append(("R13", f"{where}: Index/{label} row for unknown object {obj}"))
            if dat != ZERO_UID and dat not in by_id:
                errs.append(("R13", f"{where}: Index/{label} row for unknown data {dat}"))
            if dat != ZERO_UID and dat in by_id:
                dname = by_id[dat].get("Name", "").replace("/", "⁄")
                if dname != label:
                    errs.append(("R15", f"{where}: Index/{label} row for data named {dname!r}"))
                if owned.get(dat) and owned[dat][0] != obj:
                    errs.append(("R15", f"{where}: Index/{label} row object {obj} but data owned by {owned[dat]}"))
    # property group ids: rows list live pg records
    pg_rows = rows.get("Property Group IDs", [])
    pg_data = cat["data"].get("Property Group IDs")
    if pg_data is not None and isinstance(pg_data["value"], list):
        for start, size, obj, dat in pg_rows:
            for pg_id in pg_data["value"][start : start + size]:
                rec = by_id.get(pg_id)
                if rec is None:
                    errs.append(("R13", f"{where}: property group {pg_id} of {obj} has no record"))
                    continue
                props = rec.get("Properties") or []
                for prop in props:
                    if prop not in by_id:
                        errs.append(("R10", f"{where}: property group {pg_id} lists missing data {prop}"))
                    elif owned.get(prop, [None])[0] != obj:
                        errs.append(("R10", f"{where}: property group {pg_id} of {obj} lists data of {owned.get(prop)}"))
    return errs


# ----------------------------------------------------------------------------- digests (C09 / C10)
def digests(raw: dict) -> dict:
    """
    node key -> {sub-digest name -> hash}.  Keys: 'project', 'K/<uid>' for flat nodes,
    'T/<kind>/<uid>' for types, 'C/<group>/<object id>|<data id>/<label>' for concatenated
    row slices, 'CA/<group>/<record id>' for concatenated attribute records.
    """
    out = {}
    if raw.get("project") is None:
        return {"project": {"attrs": sha(raw.get("projects"))}}
    out["project"] = {"attrs": sha(raw["attrs"]), "top": sha(sorted(raw["top"].items())), "root": sha(raw["root"][2] if raw["root"] else None)}
    for kind in KINDS:
        for name, node in raw["flat"][kind].items():
            key = f"{kind}/{name}"
            if "addr" not in node:
                out[key] = {"broken": sha(node)}
                continue
            dsets = {k: v for k, v in node["datasets"].items()}
            entry = {
                "attrs": sha(node["attrs"]),
                "datasets": sha(dsets),
                "type": sha(node["type"][2] if node["type"] else None),
                "pgs": sha(node["pgs"]),
                "other": sha(node["other_groups"]),
            }
            for ckind in KINDS:
                entry["children:" + ckind] = sha(sorted(node["children"].get(ckind, {}).keys()))
            out[key] = entry
            if node["concat"] is not None:
                cat = node["concat"]
                rows = concat_rows(node)
                for label, rws in rows.items():
                    dset = cat["data"].get(label)
                    vals = dset["value"] if dset and isinstance(dset["value"], list) else []
                    for start, size, obj, dat in rws:
                        out[f"C/{name}/{obj}|{dat}/{label}"] = {"rows": sha(vals[start : start + size])}
                if isinstance(cat["attributes"], list):
                    for rec in cat["attributes"]:
                        if isinstance(rec, dict) and "ID" in rec:
                            out[f"CA/{name}/{rec['ID']}"] = {"record": sha(rec)}
    for tkind in TYPE_KINDS:
        for name, tnode in raw["types"][tkind].items():
            dsets = {k: v for k, v in tnode["datasets"].items() if k != "StatsCache"}
            out[f"T/{tkind}/{name}"] = {
                "attrs": sha(tnode["attrs"]),
                "datasets": sha(dsets),
                "stats": sha(tnode["datasets"].get("StatsCache")),
            }
    return out


def diff_digests(before: dict, after: dict) -> dict:
    """key -> set of changed sub-digests ('+' created, '-' deleted)."""
    changed = {}
    for key in before.keys() | after.keys():
        if key not in after:
            changed[key] = {"-"}
        elif key not in before:
            changed[key] = {"+"}
        else:
            subs = {s for s in before[key].keys() | after[key].keys() if before[key].get(s) != after[key].get(s)}
            if subs:
                changed[key] = subs
    return changed


# ----------------------------------------------------------------------------- decoding to records (C01 ...)
def decode_float(values):
    """Apply the float no-data rule to a canonical list."""
    out = []
    for v in values:
        if isinstance(v, float) and abs(v - FLOAT_NDV) < 1e-45:
            out.append("nan")
        else:
            out.append(v)
    return out


def decode_tree(raw: dict) -> dict:
    """
    uid -> record for every entity reachable from Root (hard links only), in the schema
    shared with snapshot.py.  Concatenated children are decoded from the attribute list.
    """
    recs = {}
    if raw.get("project") is None or raw["root"] is None or raw["root"][0] != "hard":
        return recs
    root_name = None
    for name, node in raw["flat"]["Groups"].items():
        if node.get("addr") == raw["root"][1]:
            root_name = name
    if root_name is None:
        return recs
    stack = [("Groups", root_name, None)]
    seen = set()
    while stack:
        kind, name, parent = stack.pop()
        if (kind, name) in seen:
            continue
        seen.add((kind, name))
        node = raw["flat"][kind].get(name)
        if node is None or "addr" not in node:
            continue
        recs[name] = _record(raw, kind, name, node, parent)
        for ckind, links in node["children"].items():
            for cname, link in links.items():
                if link[0] == "hard":
                    stack.append((ckind, cname, name))
        if node.get("concat") is not None:
            sub = _concat_records(raw, name, node)
            recs[name]["children"] = sorted(recs[name]["children"] + [u for u, r in sub.items() if r["parent"] == name])
            recs.update(sub)
    return recs


FLAG_ATTRS = {
    "Allow delete": "allow_delete",
    "Allow move": "allow_move",
    "Allow rename": "allow_rename",
    "Public": "public",
    "Visible": "visible",
    "Partially hidden": "partially_hidden",
}


def _record(raw, kind, name, node, parent) -> dict:
    attrs = node["attrs"]
    rec = {
        "uid": name,
        "kind": {"Groups": "group", "Objects": "object", "Data": "data"}[kind],
        "type_uid": node["type"][2] if node["type"] else None,
        "parent": parent,
        "name": attrs.get("Name"),
        "flags": {py: attrs.get(h5) for h5, py in FLAG_ATTRS.items()},
        "attrs": {k: v for k, v in attrs.items() if k not in FLAG_ATTRS and k not in ("ID", "Name")},
        "datasets": {k: {"dtype": v["dtype"], "value": v["value"]} for k, v in node["datasets"].items()},
        "children": sorted(c for links in node["children"].values() for c in links),
        "pgs": {},
    }
    if node["pgs"]:
        for pg_name, pg in node["pgs"].items():
            props = pg.get("Properties")
            if isinstance(props, str):
                props = [props]
            rec["pgs"][pg_name] = {
                "name": pg.get("Group Name"),
                "assoc": (pg.get("Association") or "").upper(),
                "type": pg.get("Property Group Type"),
                "props": list(props or []),
            }
    if kind == "Data":
        tnode = raw["types"]["Data types"].get(rec["type_uid"])
        rec["primitive"] = (tnode["attrs"].get("Primitive type") if tnode else None)
    return rec


def _concat_records(raw, gname, node) -> dict:
    out = {}
    cat = node["concat"]
    records = cat["attributes"] if isinstance(cat["attributes"], list) else []
    by_id = {r["ID"]: r for r in records if isinstance(r, dict) and "ID" in r}
    rows = concat_rows(node)

    def slice_of(label, obj=None, dat=None):
        dset = cat["data"].get(label)
        if dset is None or not isinstance(dset["value"], list):
            return None
        for start, size, o, d in rows.get(label, []):
            if (obj is None or o == obj) and (dat is None or d == dat):
                return {"dtype": dset["dtype"], "value": dset["value"][start : start + size]}
        return None

    ids_ds = node["datasets"].get("Concatenated object IDs")
    object_ids = ids_ds["value"] if ids_ds else []
    if isinstance(object_ids, str):
        object_ids = [object_ids]
    for hid in object_ids:
        rec = by_id.get(hid)
        if rec is None:
            continue
        hrec = {
            "uid": hid, "kind": "object", "type_uid": rec.get("Object Type ID"), "parent": gname,
            "name": (rec.get("Name") or "").replace("⁄", "/"),
            "flags": {py: (int(rec[h5]) if isinstance(rec.get(h5), bool) else rec.get(h5)) for h5, py in FLAG_ATTRS.items()},
            "attrs": {k: v for k, v in rec.items() if k not in FLAG_ATTRS and k not in ("ID", "Name", "Object Type ID") and not k.startswith("Property:")},
            "datasets": {}, "children": [], "pgs": {}, "concat": True,
        }
        for label in ("Surveys", "Trace"):
            sl = slice_of(label, obj=hid, dat=ZERO_UID)
            if sl is not None:
                hrec["datasets"][label] = sl
        pg_slice = slice_of("Property Group IDs", obj=hid, dat=ZERO_UID)
        for pg_id in (pg_slice["value"] if pg_slice else []):
            pg = by_id.get(pg_id)
            if pg is None:
                hrec["pgs"][pg_id] = {"name": None, "assoc": None, "type": None, "props": ["<missing record>"]}
                continue
            hrec["pgs"][pg_id] = {
                "name": pg.get("Group Name"), "assoc": (pg.get("Association") or "").upper(),
                "type": pg.get("Property Group Type"), "props": list(pg.get("Properties") or []),
            }
        for key, val in rec.items():
            if not key.startswith("Property:"):
                continue
            drec = by_id.get(val)
            hrec["children"].append(val)
            if drec is None:
                continue
            label = (drec.get("Name") or "")
            tnode = raw["types"]["Data types"].get(drec.get("Type ID"))
            out[val] = {
                "uid": val, "kind": "data", "type_uid": drec.get("Type ID"), "parent": hid,
                "name": label.replace("⁄", "/"),
                "flags": {py: (int(drec[h5]) if isinstance(drec.get(h5), bool) else drec.get(h5)) for h5, py in FLAG_ATTRS.items()},
                "attrs": {k: v for k, v in drec.items() if k not in FLAG_ATTRS and k not in ("ID", "Name", "Type ID")},
                "datasets": {}, "children": [], "pgs": {}, "concat": True,
                "primitive": (tnode["attrs"].get("Primitive type") if tnode else None),
            }
            sl = slice_of(label.replace("/", "⁄"), obj=hid, dat=val)
            if sl is not None:
                out[val]["datasets"]["Data"] = sl
        hrec["children"].sort()
        out[hid] = hrec
    return out


def file_sha256(path) -> str:
    h = hashlib.sha256()
    with open(path, "rb") as fh:
        for chunk in iter(lambda: fh.read(1 << 20), b""):
            h.update(chunk)
    return h.hexdigest()
