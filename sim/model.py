"""Executable reference model of one workspace: a dict uid -> record, nothing else.

Knows nothing about HDF5, weak references or caches.  Records use the schema of
snapshot.record.  Removed entities are kept as zombies for the narrow relaxations of DESIGN 4.
"""

from __future__ import annotations

import copy as _copy


class TreeModel:
    def __init__(self, root_uid: str):
        self.root = root_uid
        self.recs: dict[str, dict] = {}
        self.creator: dict[str, tuple[int, int]] = {}
        self.zombies: dict[str, dict] = {}      # removed, possibly still alive in memory
        self.removed: set[str] = set()          # every uid ever removed (entities and pgs)
        self.pg_creator: dict[str, tuple[int, int]] = {}

    # ---- queries ----------------------------------------------------------------------------
    def alive(self, want: str = "any") -> list[str]:
        out = []
        for uid, rec in self.recs.items():
            if uid == self.root:
                if want in ("container", "groupish"):
                    out.append(uid)
                continue
            kind = rec["kind"]
            if want == "any" or want == kind:
                out.append(uid)
            elif want == "container" and kind == "group" and not rec.get("concat_group"):
                out.append(uid)
            elif want == "groupish" and kind == "group":
                out.append(uid)
            elif want == "holder" and kind in ("group", "object"):
                out.append(uid)
            elif want == "entity" and kind in ("group", "object", "data"):
                out.append(uid)
        return out

    def children(self, uid: str) -> list[str]:
        return [u for u, r in self.recs.items() if r["parent"] == uid]

    def descendants(self, uid: str) -> list[str]:
        out, stack = [], [uid]
        while stack:
            cur = stack.pop()
            for child in self.children(cur):
                out.append(child)
                stack.append(child)
        return out

    def subtree(self, uid: str) -> list[str]:
        return [uid] + self.descendants(uid)

    def pgs(self) -> dict[str, tuple[str, dict]]:
        """pg uid -> (owner uid, pg record)"""
        out = {}
        for uid, rec in self.recs.items():
            for pg_uid, pg in rec.get("pgs", {}).items():
                out[pg_uid] = (uid, pg)
        return out

    def all_ids(self) -> set[str]:
        return set(self.recs) | set(self.pgs())

    def is_concat(self, uid: str) -> bool:
        rec = self.recs.get(uid)
        return bool(rec and rec.get("concat"))

    # ---- updates ----------------------------------------------------------------------------
    def add(self, rec: dict, op_id: int | None = None, n: int = 0):
        rec = _copy.deepcopy(rec)
        self.recs[rec["uid"]] = rec
        if op_id is not None:
            self.creator[rec["uid"]] = (op_id, n)
        parent = self.recs.get(rec["parent"])
        if parent is not None and rec["uid"] not in parent["children"]:
            parent["children"] = sorted(parent["children"] + [rec["uid"]])
        self.zombies.pop(rec["uid"], None)

    def remove(self, uid: str, held: set[str] = frozenset()) -> list[str]:
        """Remove the subtree of uid; returns removed uids."""
        gone = self.subtree(uid)
        rec = self.recs[uid]
        parent = self.recs.get(rec["parent"])
        if parent is not None:
            parent["children"] = [c for c in parent["children"] if c != uid]
            if rec["kind"] == "data":
                self._scrub_pgs(parent, uid)
        for g in gone:
            grec = self.recs.pop(g)
            for pg_uid in grec.get("pgs", {}):
                self.removed.add(pg_uid)
            self.zombies[g] = {"rec": grec, "collected": False}
            self.removed.add(g)
        return gone

    def _scrub_pgs(self, owner: dict, data_uid: str):
        for pg_uid in list(owner["pgs"]):
            pg = owner["pgs"][pg_uid]
            if data_uid in pg["props"]:
                pg["props"] = [p for p in pg["props"] if p != data_uid]
                if not pg["props"]:
                    del owner["pgs"][pg_uid]
                    self.removed.add(pg_uid)

    def move(self, uid: str, new_parent: str):
        rec = self.recs[uid]
        old = self.recs.get(rec["parent"])
        if old is not None:
            old["children"] = [c for c in old["children"] if c != uid]
            if rec["kind"] == "data":
                self._scrub_pgs(old, uid)
        rec["parent"] = new_parent
        new = self.recs[new_parent]
        new["children"] = sorted(set(new["children"]) | {uid})

    def clone(self) -> "TreeModel":
        return _copy.deepcopy(self)
