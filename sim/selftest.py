"""Self-tests of the machinery: setup smoke, determinism (fresh interpreters, other hash seeds), evidence schema."""

from __future__ import annotations

import json
import os
import subprocess
import sys
from pathlib import Path

VERIF = Path(__file__).resolve().parent.parent


def all_props() -> list[str]:
    man = json.loads((VERIF / "MANIFEST.json").read_text())
    return [c["property_id"] for c in man["checks"]]


def setup() -> int:
    """Import everything, install/remove the seams, run one history per registered scenario."""
    from . import runner, scenarios

    failures = 0
    for prop in all_props():
        scn = scenarios.make(prop)
        res = scn.execute(runner.run_seed(0, prop, 0), None)
        print(f"setup smoke {prop}: {res['status']} ({len(res['program']['ops'])} ops)")
        if res["status"] not in ("ok", "violation", "foreign", "suspect"):
            failures += 1
    (VERIF / "evidence").mkdir(exist_ok=True)
    return 1 if failures else 0


def _digests(prop: str, n: int, hashseed: str) -> list[str]:
    env = dict(os.environ)
    env["VERIF_HASHSEED"] = hashseed
    env["PYTHONHASHSEED"] = hashseed
    env.pop("VERIF_REEXEC", None)
    out = subprocess.run([str(VERIF / "check"), prop, "--digests", str(n)], env=env, capture_output=True, text=True, timeout=1200)
    if out.returncode != 0:
        raise RuntimeError(f"digest run failed for {prop}: {out.stdout[-500:]} {out.stderr[-500:]}")
    return out.stdout.strip().splitlines()


def determinism(n: int = 40) -> int:
    """Same seeds in fresh interpreters under PYTHONHASHSEED 0, 0 again and 12345: event-log digests must agree."""
    from concurrent.futures import ThreadPoolExecutor

    bad = 0
    props = all_props()
    jobs = [(p, hs) for p in props for hs in ("0", "0", "12345")]
    with ThreadPoolExecutor(max_workers=min(16, len(jobs))) as pool:
        results = list(pool.map(lambda j: _digests(j[0], n, j[1]), jobs))
    for i, prop in enumerate(props):
        a, b, c = results[3 * i: 3 * i + 3]
        same = a == b == c
        diff = [k for k in range(min(len(a), len(b), len(c))) if not (a[k] == b[k] == c[k])]
        print(f"determinism {prop}: {n} seeds x 3 fresh interpreters (hash seeds 0, 0, 12345): {'identical' if same else 'DIVERGED at runs ' + str(diff[:5])}")
        if not same:
            bad += 1
            for k in diff[:2]:
                print("   ", a[k], "|", b[k], "|", c[k])
    return 2 if bad else 0


def schema() -> int:
    code = (
        "import json,sys,glob,jsonschema\n"
        "s=json.load(open('/root/.vp/EVIDENCE.schema.json'))\n"
        "m=json.load(open('/verif/MANIFEST.json'))\n"
        "jsonschema.validate(m,json.load(open('/root/.vp/MANIFEST.schema.json')))\n"
        "bad=0\n"
        "for f in sorted(glob.glob('/verif/evidence/*.json')):\n"
        "    try:\n"
        "        jsonschema.validate(json.load(open(f)),s); print('schema ok',f)\n"
        "    except Exception as e:\n"
        "        bad+=1; print('schema FAIL',f,str(e)[:300])\n"
        "sys.exit(1 if bad else 0)\n"
    )
    return subprocess.run(["python3-vt", "-c", code], check=False).returncode


def main(args) -> int:
    if args.setup:
        return setup()
    if args.determinism:
        return determinism(args.runs or 40)
    if args.schema:
        return schema()
    print("selftest: choose --setup, --determinism [--runs N] or --schema")
    return 0
