"""Self-tests of the machinery (determinism, setup smoke, schema)."""


def main(args) -> int:
    print("selftest: not built yet")
    return 0
