"""
The concat machine (C04; also serves C05, C09, C12 for concatenated entities): seeded histories over
drillhole groups with concatenated storage -- add / update / rename / remove (both entry points) /
copy / re-open -- against a per-hole reference model, RAW tiling rules after every operation and
per-row digests of untouched holes.
"""

from __future__ import annotations

import random
import uuid

import numpy as np

from . import build, compare, rawgeoh5, snapshot
from .kernel import H, Sim, Violation
from .scenarios import BaseScenario
from .snapshot import ustr

KEYLIKE_NAMES = ["Data", "values", "Float", "Object", "surveys", "Trace"]
DATA_NAMES = ["au", "cu", "lith", "a/b", "zn", "rock é", "au"]   # 'au' twice: names are shared between holes
PG_NAMES = [None, None, "tabA", "tabB"]
PROTECTED = ("DEPTH", "FROM", "TO")


def f32(rng, n, nan_rate=0.15):
    return [("nan" if rng.random() < nan_rate else rng.randrange(-128, 129) / 4.0) for _ in range(n)]


class ConcatWorld:
    def __init__(self, sim: Sim, cfg: dict, prop: str):
        self.sim = sim
        self.cfg = cfg
        self.prop = prop
        self.ws = {}
        self.paths = {}
        self.groups: dict[str, dict] = {}      # group uid -> {"h": handle, "name":, "holes": {hole uid: hole model}}
        self.created: dict[int, list] = {}
        self.slots = {}
        self.trace = []
        self.n_mut = 0
        self.fault_after_mut = 0
        self.last_mut = False
        self.suspect = None
        self.states = set()
        self.removed: set = set()      # (handle, uid)
        self.mixed = False
        self.label_dk = {}
        self.copy_pairs = set()
        self.last_group = None
        self.removed_labels = set()
        self._gc_seen = 0

    # ------------------------------------------------------------------ setup
    def open_initial(self):
        from geoh5py import Workspace
        from geoh5py.groups import DrillholeGroup

        names = ["A", "B"] if self.cfg.get("two_ws") else ["A"]
        for name in names:
            self.paths[name] = self.sim.path(f"{name}.geoh5")
            self.ws[name] = Workspace.create(self.paths[name], version=self.cfg["version"], ga_version="4.2", contributors=["sim"])
        for i in range(self.cfg.get("n_groups", 1)):
            grp = DrillholeGroup.create(self.ws["A"], name=f"dh{i}")
            self.groups["A:" + ustr(grp.uid)] = {"h": "A", "name": f"dh{i}", "holes": {}}
            del grp
        self.sim.record("open", names, self.cfg["version"])

    def group_ent(self, guid):
        h = self.groups[guid]["h"]
        ent = self.ws[h].get_entity(uuid.UUID(guid.split(":", 1)[1].strip("{}")))[0]
        if ent is None:
            raise Violation(self.v("C05"), "lookup_lost", f"drillhole group {guid} not found", {"kind": "group"})
        return ent

    def hole_ent(self, guid, huid):
        if (guid, huid) in self.slots:
            return self.slots[(guid, huid)]
        h = self.groups[guid]["h"]
        ent = self.ws[h].get_entity(uuid.UUID(huid.strip("{}")))[0]
        if ent is None:
            raise Violation(self.v("C05"), "lookup_lost", f"get_entity({huid}) is None for a live drillhole", {"kind": "hole"})
        return ent

    def v(self, default, after_removal=False):
        """Property a violation is attributed to.  The concat machine's own oracles belong to C04; a C05 run claims
        the post-removal state oracles, a C09 run the row-isolation oracle (handled at the raise sites)."""
        if self.prop == "C05" and (default == "C05" or after_removal):
            return "C05"
        return default

    # ------------------------------------------------------------------ targets
    def holes(self):
        return [(g, hu) for g, grp in self.groups.items() for hu in grp["holes"]]

    def pick_hole(self, rng, pred=None):
        cands = [(g, hu) for g, hu in self.holes() if pred is None or pred(self.groups[g]["holes"][hu])]
        if not cands:
            return None
        g, hu = rng.choice(cands)
        return {"g": g, "hole": hu, "fb": cands.index((g, hu))}

    def res_hole(self, t, pred=None):
        if t is None:
            return None
        cands = [(g, hu) for g, hu in self.holes() if pred is None or pred(self.groups[g]["holes"][hu])]
        if (t["g"], t["hole"]) in cands:
            self.last_group = t["g"]
            return t["g"], t["hole"]
        if not cands:
            return None
        self.last_group = cands[t["fb"] % len(cands)][0]
        return cands[t["fb"] % len(cands)]

    # ------------------------------------------------------------------ observation
    def live_hole(self, hole) -> dict:
        """name -> {'uid', 'values', 'flags'} and property groups of a hole through the API."""
        out = {"data": {}, "pgs": {}}
        for name in hole.get_data_list():
            try:
                found = hole.get_data(name)
            except Exception as err:  # pylint: disable=broad-except
                # the data set is listed by its hole and cannot be fetched (its record names something the file no longer holds)
                raise Violation(self.v("C04", after_removal=bool(self.removed)), "data_unreadable",
                                f"get_data({name!r}) on a stored hole raised {type(err).__name__}: {str(err)[:100]}", {"exc": type(err).__name__}) from None
            if not found:
                out["data"][name] = {"uid": None, "values": "<missing>"}
                continue
            data = found[0]
            try:
                vals = snapshot.values_of(data)
            except Exception as err:  # pylint: disable=broad-except
                raise Violation(self.v("C04"), "values_raise", f"reading values of {name!r} raised {type(err).__name__}: {str(err)[:100]}",
                                {"exc": type(err).__name__}) from None
            out["data"][name] = {"uid": ustr(data.uid), "values": vals, "allow_delete": bool(data.allow_delete)}
        for pg in hole.property_groups or []:
            out["pgs"][pg.name] = {"uid": ustr(pg.uid), "type": pg.property_group_type,
                                   "members": [hole.get_data(p)[0].name if hole.get_data(p) else f"<dangling {p}>" for p in (pg.properties or [])]}
        return out

    def check_all(self, where: str, skip=()):
        """Every hole reads back exactly the values last written for each of its data (LIVE)."""
        self.sim.oracle("values_live")
        for guid, grp in self.groups.items():
            group = self.group_ent(guid)
            live_holes = {ustr(c.uid): c for c in group.children if snapshot.kind_of(c) == "object"}
            del group
            if set(live_holes) != set(grp["holes"]):
                extra = set(live_holes) - set(grp["holes"])
                missing = set(grp["holes"]) - set(live_holes)
                raise Violation(self.v("C04", where.startswith("rm_")), "holes_differ", f"{where}: group children: unexpected {sorted(extra)} missing {sorted(missing)}",
                                {"extra": bool(extra), "missing": bool(missing), "where": where.split(':')[0]})
            for huid, hmodel in grp["holes"].items():
                if (guid, huid) in skip:
                    continue
                try:
                    self.check_hole(guid, huid, live_holes[huid], where)
                except Violation as vio:
                    vio.group = guid
                    raise
            del live_holes

    def check_hole(self, guid, huid, hole, where):
        hmodel = self.groups[guid]["holes"][huid]
        live = self.live_hole(hole)
        if hole.name != hmodel["name"]:
            raise Violation(self.v("C04"), "hole_attr", f"{where}: hole name {hole.name!r} expected {hmodel['name']!r}", {"field": "name", "where": where.split(':')[0]})
        if set(live["data"]) != set(hmodel["data"]):
            raise Violation(self.v("C04", where.startswith("rm_")), "data_set_differs", f"{where}: hole {hmodel['name']}: data {sorted(live['data'])} expected {sorted(hmodel['data'])}",
                            {"where": where.split(':')[0], "extra": bool(set(live['data']) - set(hmodel['data'])), "missing": bool(set(hmodel['data']) - set(live['data']))})
        for name, d in hmodel["data"].items():
            if not compare.same(live["data"][name]["values"], d["values"]):
                raise Violation(self.v("C04", where.startswith("rm_")), "values_differ", f"{where}: hole {hmodel['name']} data {name!r}: {compare._short(live['data'][name]['values'])} "
                                f"expected {compare._short(d['values'])}", {"where": where.split(':')[0], "target": bool(d.get("touched"))})
            if live["data"][name]["uid"] != d["uid"]:
                raise Violation(self.v("C04"), "data_uid_changed", f"{where}: data {name!r} identifier changed", {"where": where.split(':')[0]})
        pgs = {k: v["members"] for k, v in live["pgs"].items()}
        if pgs != {k: v["members"] for k, v in hmodel["pgs"].items()}:
            raise Violation(self.v("C04", where.startswith("rm_")), "pgs_differ", f"{where}: hole {hmodel['name']}: property groups {pgs} expected "
                            f"{ {k: v['members'] for k, v in hmodel['pgs'].items()} }", {"where": where.split(':')[0]})

    def adopt_hole(self, guid, huid, hole, expect_new: dict, where: str, allow_aux=True):
        """After an add: existing data unchanged, the named new data hold the expected values, auxiliary
        depth/from/to data hold the given depths; adopt names/uids/pg membership from LIVE."""
        hmodel = self.groups[guid]["holes"][huid]
        live = self.live_hole(hole)
        for name, d in hmodel["data"].items():
            if name not in live["data"]:
                raise Violation(self.v("C04"), "data_set_differs", f"{where}: existing data {name!r} vanished", {"where": where.split(':')[0], "extra": False, "missing": True})
            if not compare.same(live["data"][name]["values"], d["values"]):
                raise Violation(self.v("C04"), "values_differ", f"{where}: existing data {name!r} changed: {compare._short(live['data'][name]['values'])} "
                                f"expected {compare._short(d['values'])}", {"where": where.split(':')[0], "target": False})
        new_names = [n for n in live["data"] if n not in hmodel["data"]]
        for name, want in expect_new.items():
            if name not in live["data"]:
                raise Violation(self.v("C04"), "data_set_differs", f"{where}: new data {name!r} not listed", {"where": where.split(':')[0], "extra": False, "missing": True})
            if not compare.same(live["data"][name]["values"], want):
                raise Violation(self.v("C04"), "values_differ", f"{where}: new data {name!r}: {compare._short(live['data'][name]['values'])} expected {compare._short(want)}",
                                {"where": where.split(':')[0], "target": True})
        for name in new_names:
            if name not in expect_new and not (allow_aux and name.split("(")[0] in PROTECTED):
                raise Violation(self.v("C04"), "data_set_differs", f"{where}: unexpected new data {name!r}", {"where": where.split(':')[0], "extra": True, "missing": False})
            uid = live["data"][name]["uid"]
            if uid in self.all_ids(self.groups[guid]["h"]):
                raise Violation("C06", "uid_reused", f"new concatenated data reuses identifier {uid}", {"what": "concat data"})
            hmodel["data"][name] = {"uid": uid, "values": live["data"][name]["values"], "protected": not live["data"][name]["allow_delete"],
                                    "dk": getattr(self, "adding_dk", None) if name in expect_new else "float"}
        hmodel["pgs"] = {k: {"uid": v["uid"], "type": v["type"], "members": list(v["members"])} for k, v in live["pgs"].items()}
        return new_names

    def all_ids(self, h=None):
        out = {g.split(":", 1)[1] for g, grp in self.groups.items() if h is None or grp["h"] == h}
        for grp in self.groups.values():
            if h is not None and grp["h"] != h:
                continue
            for hu, hm in grp["holes"].items():
                out.add(hu)
                out.update(d["uid"] for d in hm["data"].values())
                out.update(p["uid"] for p in hm["pgs"].values())
        return out

    # ------------------------------------------------------------------ RAW oracles
    def raw_digest(self):
        out = {}
        for h, ws in self.ws.items():
            if ws is not None and ws._geoh5:  # pylint: disable=protected-access
                raw = rawgeoh5.read(ws.geoh5, kinds=("Groups",), types=False)
                out[h] = (raw, rawgeoh5.digests(raw))
        return out

    def raw_rules(self, raw, h, where, closed: bool):
        self.sim.oracle("raw_rules_closed" if closed else "raw_rules_open")
        for name, node in raw["flat"]["Groups"].items():
            if node.get("concat") is None:
                continue
            errs = rawgeoh5.validate_concat(node, f"Groups/{name}")
            if not closed:
                errs = [e for e in errs if e[0] == "R12"]   # attribute records are written at close
            if errs:
                rule, detail = errs[0]
                vio = Violation(self.v("C04"), "concat_" + rule, f"{where}: {detail} (+{len(errs) - 1} more)", {"rule": rule, "where": where.split(':')[0], "closed": closed})
                vio.group = f"{h}:{name}"
                raise vio
            if closed and f"{h}:{name}" in self.groups:
                # records are exactly the live holes, data and property groups; nothing of removed entities
                recs = node["concat"]["attributes"] if isinstance(node["concat"]["attributes"], list) else []
                ids = {r.get("ID") for r in recs if isinstance(r, dict)}
                want = set()
                for hu, hm in self.groups[f"{h}:{name}"]["holes"].items():
                    want.add(hu)
                    want.update(d["uid"] for d in hm["data"].values())
                    want.update(p["uid"] for p in hm["pgs"].values())
                if ids != want:
                    stale = ids - want
                    missing = want - ids
                    raise Violation(self.v("C04"), "concat_records", f"{where}: attribute records: stale {sorted(stale)[:3]} missing {sorted(missing)[:3]}",
                                    {"stale": bool(stale), "missing": bool(missing), "where": where.split(':')[0]})

    def judge_rows(self, before, after, touched: set, where, created_groups=()):
        """Per-row digests of holes/data not targeted by the operation are bit-identical (also C09)."""
        self.sim.oracle("rows_untouched")
        for h in after:
            if h not in before:
                continue
            changed = rawgeoh5.diff_digests(before[h][1], after[h][1])
            for key, subs in sorted(changed.items()):
                parts = key.split("/")
                if parts[0] == "C":
                    ids = parts[2].split("|")
                    if f"{h}:{parts[1]}" in created_groups or any(i in touched for i in ids):
                        continue
                    vio = Violation(self.v("C04") if self.prop != "C09" else "C09", "rows_changed",
                                    f"{where}: rows {parts[3]} of {ids[0]} changed {sorted(subs)} although the operation targeted {sorted(touched)[:2]}",
                                    {"where": where.split(':')[0], "label_kind": "aux" if parts[3] in ("Surveys", "Trace", "Property Group IDs") else "data"})
                    vio.group = f"{h}:{parts[1]}"
                    raise vio

    # ------------------------------------------------------------------ gc bookkeeping
    def check_gc(self):
        seen = sum(v for k, v in self.sim.faults.items() if k.startswith("gc:"))
        if seen != self._gc_seen:
            self._gc_seen = seen
            if self.last_mut:
                self.fault_after_mut += 1


class ConcatScenario(BaseScenario):
    KINDS = {
        "mk_hole": 8, "add_depth": 10, "add_interval": 8, "add_to_pg": 6, "add_obj_data": 3, "set_values": 8, "rename_data": 2, "rename_hole": 3,
        "rm_data_ws": 5, "rm_data_parent": 5, "rm_hole_ws": 3, "rm_hole_parent": 3, "rm_pg": 2, "rm_protected": 2,
        "copy_hole": 3, "copy_group": 6, "table": 3, "set_attr": 3,
        "gc": 4, "close_reopen": 6, "reopen_same": 2, "drop": 1,
    }
    PROFILE = {
        "C05": {"add_obj_data": 5, "rm_data_ws": 10, "rm_data_parent": 8, "rm_hole_ws": 6, "rm_hole_parent": 5, "rm_pg": 4, "rm_protected": 6},
        "C12": {"copy_hole": 8, "copy_group": 10},
        "C09": {"set_values": 12, "rm_data_ws": 8},
        "C03": {"set_attr": 12, "rename_hole": 8, "rename_data": 6, "close_reopen": 10},
    }
    MUT = {"mk_hole", "add_depth", "add_interval", "add_to_pg", "add_obj_data", "set_values", "rename_data", "rename_hole", "rm_data_ws", "rm_data_parent",
           "rm_hole_ws", "rm_hole_parent", "rm_pg", "copy_hole", "copy_group", "set_attr"}

    def __init__(self, prop="C04"):
        self.prop = prop
        self.expected_probes = ["mk_hole", "add_depth_new_table", "add_depth_existing_table", "add_interval", "set_values_longer_data_exists",
                                "rm_middle_then_readd", "rm_last_row", "len0", "same_name_two_holes", "copy_group_cross", "reopen"]
        self.rule = ("one evaluation = one seeded history of the concat machine (<= 36 operations on 1-2 drillhole groups, 1-5 holes: add depth / interval "
                     "data to new or existing tables, update values, rename, remove through workspace or parent, copy hole / group (same or other workspace), "
                     "table views, GC points, close + re-open) with per-hole value oracles, RAW tiling rules after every operation, all concatenation rules "
                     "at every close, per-row digests of untouched holes. distinct = distinct abstract trace; non-trivial = >= 3 successful mutations and >= 1 "
                     "schedule/fault event after a mutation.")
        self.assumptions = ["values are float32-representable (the concatenated store is float32)", "h5py/HDF5/numpy and sim/rawgeoh5.py are trusted"]

    def weights(self):
        w = dict(self.KINDS)
        w.update(self.PROFILE.get(self.prop, {}))
        return w

    def make_config(self, rng):
        return {"version": rng.choice([2.0, 2.1, 2.1]), "two_ws": rng.random() < 0.55, "n_groups": rng.choice([1, 1, 2]),
                "gc": rng.choices(["none", "op", "io", "line"], [2, 4, 3, 1])[0], "gc_density": rng.choice([0.15, 0.4, 0.8]),
                "h5repack": rng.choices(["absent", "ok", "fail"], [3, 2, 1])[0], "n_ops": rng.choice([6, 10, 16, 24, 36]),
                "keep_prob": rng.choice([0.0, 0.3, 0.6]), "avoid_known": rng.random() < 0.9, "peek": rng.choice(["always", "sparse"])}

    def simplify_config(self, cfg):
        out = []
        for mode in ("none", "op"):
            if cfg.get("gc") != mode:
                out.append({**cfg, "gc": mode})
        if cfg.get("two_ws"):
            out.append({**cfg, "two_ws": False})
        if cfg.get("n_groups", 1) > 1:
            out.append({**cfg, "n_groups": 1})
        return out

    # ------------------------------------------------------------------ generation
    def gen_op(self, w: ConcatWorld, rng, op_id):
        weights = self.weights()
        kinds = sorted(weights)
        hint = getattr(w, "edit_copy_next", None)
        if hint:
            # right after a group was copied into the other workspace: a value edit on a hole of the COPY that is not the last one of
            # its label (the source must not notice)
            w.edit_copy_next = None
            sub = rng.getrandbits(64)
            orng = random.Random(H(sub, "args"))
            cands = [(g, hu, n) for g, hu in w.holes() for n, d in w.groups[g]["holes"][hu]["data"].items() if self._plain(n, d)]
            mine = [c for c in cands if c[0] in hint]
            first = [c for c in mine if any(c2[2] == c[2] and c2[0] == c[0] and c2[1] != c[1] for c2 in mine)] or mine
            if first and orng.random() < 0.7:
                g, hu, n = first[0] if orng.random() < 0.6 else first[orng.randrange(len(first))]
                w.sim.probe("edit_right_after_cross_copy")
                return {"id": op_id, "k": "set_values", "sub": sub, "keep": False, "t": {"g": g, "hole": hu, "name": n, "fb": cands.index((g, hu, n))},
                        "mode": "exact", "dseed": orng.getrandbits(32), "uncached": True}
        for _ in range(40):
            kind = rng.choices(kinds, [weights[k] for k in kinds])[0]
            sub = rng.getrandbits(64)
            orng = random.Random(H(sub, "args"))
            args = getattr(self, "gen_" + kind)(w, orng)
            if args is None:
                continue
            return {"id": op_id, "k": kind, "sub": sub, "keep": orng.random() < w.cfg.get("keep_prob", 0.3), **args}
        return {"id": op_id, "k": "gc", "sub": rng.getrandbits(64), "keep": False}

    def gen_mk_hole(self, w, r):
        if len(w.holes()) >= 6:
            return None
        groups = sorted(w.groups)
        g = r.choice(groups)
        n = r.randint(1, 3)
        depth, surveys = 0.0, []
        for _ in range(n):
            surveys.append([depth, r.choice([0.0, 45.0, 270.0]), r.choice([-90.0, -60.0])])
            depth += r.choice([5.0, 10.0])
        return {"g": g, "gfb": groups.index(g), "name": f"hole{r.randrange(100)}", "collar": [build.fval(r), build.fval(r), build.fval(r)], "surveys": surveys}

    def _gen_add(self, w, r, kind):
        t = w.pick_hole(r)
        if t is None:
            return None
        n = r.choice([0, 1, 2, 3, 5])
        dk = r.choice(["float", "float", "text", "referenced"])
        name = r.choice(DATA_NAMES)
        if not w.cfg.get("avoid_known") and r.random() < 0.04:
            name = r.choice(KEYLIKE_NAMES)     # a data name that is also a key of the format (known finding)
        if w.cfg.get("avoid_known"):
            # one primitive type per data name across holes (known finding: mixed types under one name corrupt the shared array)
            dk = {"au": "float", "cu": "float", "lith": "text", "a/b": "float", "zn": "referenced", "rock é": "text"}[name]
        return {"t": t, "name": name, "n": n, "dk": dk, "short": r.random() < 0.15, "pg": r.choice(PG_NAMES),
                "dseed": r.getrandbits(32), "existing": r.random() < 0.5, "kind": kind}

    def gen_add_depth(self, w, r):
        return self._gen_add(w, r, "depth")

    def gen_add_interval(self, w, r):
        return self._gen_add(w, r, "interval")

    def gen_add_obj_data(self, w, r):
        t = w.pick_hole(r)
        if t is None:
            return None
        name = r.choice(["note", "num"])
        return {"t": t, "name": name, "dk": "text" if name == "note" else "float", "dseed": r.getrandbits(32)}

    def do_add_obj_data(self, w, op):
        """Hole-level data (explicit association OBJECT): belongs to no table / property group."""
        res = w.res_hole(op["t"])
        if res is None:
            return "skipped"
        g, hu = res
        hmodel = w.groups[g]["holes"][hu]
        name = op["name"] if op["name"] not in hmodel["data"] else f"{op['name']}_{op['id']}"
        vr = random.Random(op["dseed"])
        if op["dk"] == "text":
            vals, spec = [f"note {vr.randrange(1000)}"], None
            spec = {"values": np.array(vals), "association": "OBJECT", "type": "TEXT"}
        else:
            vals = [build.fval(vr)]
            spec = {"values": np.array(vals, dtype=float), "association": "OBJECT"}
        if w.label_dk.setdefault((g, name), op["dk"]) != op["dk"]:
            w.mixed = True
        hole = w.hole_ent(g, hu)
        w.touched = {hu}
        w.adding_dk = op["dk"]
        _, outcome = self.call(w, lambda: hole.add_data({name: spec}), what="add_obj_data")
        if outcome != "ok":
            del hole
            return outcome
        new_names = w.adopt_hole(g, hu, hole, {name: vals}, "add_obj_data:adopt", allow_aux=False)
        del hole
        for nm in new_names:
            w.touched.add(hmodel["data"][nm]["uid"])
        w.sim.probe("add_obj_data")
        return "ok"

    def gen_add_to_pg(self, w, r):
        t = w.pick_hole(r, lambda h: bool(h["pgs"]))
        if t is None:
            return None
        name = r.choice(DATA_NAMES)
        dk = r.choice(["float", "text"])
        if w.cfg.get("avoid_known"):
            dk = {"au": "float", "cu": "float", "lith": "text", "a/b": "float", "zn": "float", "rock é": "text"}[name]
            if name == "zn":
                name = "cu"
        return {"t": t, "name": name, "dk": dk, "pick": r.randrange(100), "dseed": r.getrandbits(32), "short": r.random() < 0.2}

    def _pick_data(self, w, r, pred=None):
        cands = [(g, hu, n) for g, hu in w.holes() for n, d in w.groups[g]["holes"][hu]["data"].items() if pred is None or pred(n, d)]
        if not cands:
            return None
        g, hu, n = r.choice(cands)
        return {"g": g, "hole": hu, "name": n, "fb": cands.index((g, hu, n))}

    def _res_data(self, w, t, pred=None):
        cands = [(g, hu, n) for g, hu in w.holes() for n, d in w.groups[g]["holes"][hu]["data"].items() if pred is None or pred(n, d)]
        if (t["g"], t["hole"], t["name"]) in cands:
            w.last_group = t["g"]
            return t["g"], t["hole"], t["name"]
        if not cands:
            return None
        w.last_group = cands[t["fb"] % len(cands)][0]
        return cands[t["fb"] % len(cands)]

    @staticmethod
    def _plain(n, d):
        return not d.get("protected")

    def gen_set_values(self, w, r):
        t = self._pick_data(w, r, self._plain)
        return None if t is None else {"t": t, "mode": r.choices(["exact", "short", "long"], [7, 2, 1])[0], "dseed": r.getrandbits(32)}

    def gen_rename_data(self, w, r):
        if w.cfg.get("avoid_known"):
            return None
        t = self._pick_data(w, r, self._plain)
        return None if t is None else {"t": t, "new": r.choice(DATA_NAMES) + str(r.randrange(10))}

    def gen_rename_hole(self, w, r):
        t = w.pick_hole(r)
        return None if t is None else {"t": t, "new": f"renamed{r.randrange(100)}"}

    def gen_set_attr(self, w, r):
        t = w.pick_hole(r)
        if t is None:
            return None
        attr = r.choice(["collar", "cost", "planning", "visible", "public", "allow_rename"])
        val = {"collar": [build.fval(r), build.fval(r), build.fval(r)], "cost": r.randrange(1, 100) / 2.0, "planning": r.choice(["Ongoing", "Planned", "Completed"]),
               "visible": r.random() < 0.5, "public": r.random() < 0.5, "allow_rename": r.random() < 0.5}[attr]
        return {"t": t, "attr": attr, "val": val}

    def gen_rm_data_ws(self, w, r):
        t = self._pick_data(w, r, self._plain)
        return None if t is None else {"t": t}

    gen_rm_data_parent = gen_rm_data_ws

    def gen_rm_protected(self, w, r):
        t = self._pick_data(w, r, lambda n, d: d.get("protected"))
        return None if t is None else {"t": t}

    def gen_rm_hole_ws(self, w, r):
        t = w.pick_hole(r)
        return None if t is None else {"t": t}

    gen_rm_hole_parent = gen_rm_hole_ws

    def gen_rm_pg(self, w, r):
        t = w.pick_hole(r, lambda h: bool(h["pgs"]))
        return None if t is None else {"t": t, "pick": r.randrange(100)}

    def gen_copy_hole(self, w, r):
        if len(w.holes()) >= 6:
            return None
        t = w.pick_hole(r)
        return None if t is None else {"t": t}

    def gen_copy_group(self, w, r):
        if len(w.groups) >= 3 or len(w.holes()) >= 6:
            return None
        groups = sorted(w.groups)
        g = r.choice(groups)
        dh = "B" if ("B" in w.ws and r.random() < 0.7) else w.groups[g]["h"]
        return {"g": g, "gfb": groups.index(g), "dh": dh, "blind": r.random() < 0.35, "fresh_source": r.random() < 0.4}

    def gen_table(self, w, r):
        t = w.pick_hole(r, lambda h: bool(h["pgs"]))
        return None if t is None else {"t": t, "pick": r.randrange(100)}

    def gen_gc(self, w, r):
        return {}

    def gen_drop(self, w, r):
        return {} if w.slots else None

    def gen_close_reopen(self, w, r):
        return {"h": r.choice(sorted(w.ws))}

    gen_reopen_same = gen_close_reopen

    # ------------------------------------------------------------------ execution
    def execute(self, seed, program=None):
        rng = random.Random(H(seed, "program"))
        if program is None:
            cfg = self.make_config(rng)
            ops, n_ops = None, cfg["n_ops"]
        else:
            cfg, ops = program["config"], program["ops"]
            n_ops = len(ops)
        sim = Sim(seed, cfg)
        executed = []
        status, violation, suspect = "ok", None, None
        with sim.running():
            w = ConcatWorld(sim, cfg, self.prop)
            try:
                w.open_initial()
                for i in range(n_ops):
                    op = ops[i] if ops is not None else self.gen_op(w, rng, i)
                    executed.append(op)
                    self.apply(w, op)
                    if w.suspect:
                        break
                if not w.suspect:
                    w.check_all("final:before close")
                    for h in sorted(w.ws):
                        self.boundary(w, h, same=False, final=True)
            except Violation as vio:
                if w.mixed:
                    # one label holding two primitive types corrupts the shared array (C04 known finding); whatever an
                    # oracle sees afterwards, in whichever check, derives from that and is attributed to C04
                    vio.discr["mixed_types"] = True
                    vio.prop = "C04"
                if getattr(w, "keylike", False):
                    vio.discr["keylike_name"] = True
                    vio.prop = "C04"
                violation = {"prop": vio.prop, "tag": vio.tag, "detail": vio.detail, "discr": vio.discr, "event": sim.events}
                sim.record("violation", vio.prop, vio.tag, vio.discr)
                status = "violation" if vio.prop == self.prop else "foreign"
            except Exception as err:  # pylint: disable=broad-except
                if not getattr(w, "keylike", False):
                    raise
                # the machine's own reads and re-opens fail on a store holding such a name: part of the same finding
                violation = {"prop": "C04", "tag": "store_unusable", "detail": f"after a data set was named like a key of the format: {type(err).__name__}: {str(err)[:120]}",
                             "discr": {"keylike_name": True, "exc": type(err).__name__}, "event": sim.events}
                sim.record("violation", "C04", "store_unusable", violation["discr"])
                status = "violation" if self.prop == "C04" else "foreign"
            if w.suspect and status == "ok" and getattr(w, "keylike", False):
                violation = {"prop": "C04", "tag": "store_unusable", "detail": f"after a data set was named like a key of the format: {w.suspect[:160]}",
                             "discr": {"keylike_name": True}, "event": sim.events}
                sim.record("violation", "C04", "store_unusable", violation["discr"])
                status = "violation" if self.prop == "C04" else "foreign"
                w.suspect = None
            if w.suspect and status == "ok" and w.mixed:
                sim.probe("exception_after_mixed_types")      # same attribution for unexpected exceptions
            elif w.suspect and status == "ok":
                status, suspect = "suspect", w.suspect
            stats = {"events": sim.events, "ops": len(executed), "faults": dict(sim.faults), "probes": dict(sim.probes), "oracle_evals": dict(sim.oracle_evals),
                     "trace_hash": rawgeoh5.sha(w.trace), "nontrivial": w.n_mut >= 3 and w.fault_after_mut >= 1, "states": sorted(w.states),
                     "clock_lo": sim.clock.lo, "clock_hi": sim.clock.hi, "cell": "concat"}
            digest = sim.digest()
            w.slots.clear()
            for h, ws in w.ws.items():
                if ws is not None:
                    try:
                        ws.close()
                    except Exception:  # pylint: disable=broad-except
                        pass
            w.ws = {}
        return {"status": status, "violation": violation, "suspect": suspect, "program": {"config": cfg, "ops": executed}, "stats": stats, "digest": digest}

    def call(self, w, fn, expect="ok", what=""):
        try:
            result = fn()
        except Violation:
            raise
        except Exception as err:  # pylint: disable=broad-except
            name, text = type(err).__name__, str(err)[:160]
            import traceback as _tb
            frames = _tb.extract_tb(err.__traceback__)
            where = " < ".join(f"{f.name}:{f.lineno}" for f in frames[-4:][::-1])
            del err, frames
            if expect == "ok":
                unread = bool(getattr(w, "last_group", None) in getattr(w, "unread_copies", ()))
                if w.prop == "C05" and w.removed:
                    raise Violation("C05", "later_op_fails", f"after a removal, {what} raised {name}: {text} @ {where}",
                                    {"op": what.split(" ")[0], "exc": name, **({"unread_copy": True} if unread else {})}) from None
                w.suspect = f"{what}: unexpected {name}: {text} @ {where}"
                return None, "raised:" + name
            return None, "refused:" + name
        return result, ("accepted" if expect == "refuse" else "ok")

    def apply(self, w: ConcatWorld, op):
        sim = w.sim
        kind = op["k"]
        judged = kind in self.MUT or kind in ("rm_protected", "table", "gc")
        before = (getattr(w, "_cache", None) or w.raw_digest()) if judged else None
        w._cache = None
        w.touched = set()
        w.created_groups = set()
        sim.begin_op(op["sub"])
        try:
            outcome = getattr(self, "do_" + kind)(w, op)
        finally:
            sim.end_op()
        warns = sim.drain_warnings()
        w.check_gc()
        if kind in self.MUT and outcome == "ok":
            w.n_mut += 1
            w.last_mut = True
        elif kind in ("gc", "close_reopen", "reopen_same", "drop"):
            if w.last_mut and kind != "gc":
                w.fault_after_mut += 1
            sim.fault("ev:" + kind)
            w.last_mut = False
        w.trace.append(f"{kind}:{outcome.split(':')[0]}")
        state = rawgeoh5.sha([[g, hu, sorted((n, d["values"]) for n, d in hm["data"].items())] for g, grp in sorted(w.groups.items()) for hu, hm in grp["holes"].items()])
        sim.record("op", op["id"], kind, outcome, sorted(set(warns)), state)
        try:
            if before is not None and not w.suspect and kind not in ("close_reopen", "reopen_same"):
                after = w.raw_digest()
                if self.prop == "C09":
                    # C09's own question first: a broken tiling usually also shows as changed rows of untouched holes
                    w.judge_rows(before, after, w.touched if outcome == "ok" else set(), f"{kind}:{outcome}", w.created_groups)
                for h in after:
                    w.raw_rules(after[h][0], h, f"{kind}:after op", closed=False)
                if self.prop != "C09":
                    w.judge_rows(before, after, w.touched if outcome == "ok" else set(), f"{kind}:{outcome}", w.created_groups)
                w._cache = after
            # reading every hole's values after every operation fills the per-entity value caches and hides what only an
            # uncached read (or the table view) would show: "sparse" runs look after about a third of the operations
            if not w.suspect and kind in self.MUT and (w.cfg.get("peek", "always") == "always" or kind == "rename_data"
                                                              or random.Random(H(op["sub"], "peek")).random() < 0.35):     # (rename_data: known-finding canary, judged where it happens)
                w.check_all(f"{kind}:after op")
            if op.get("uncached") and not w.suspect:
                # every hole is read again by an observer that holds nothing: references dropped, a collection, fresh entities
                w.slots.clear()
                sim.collect("uncached_read")
                w.check_gc()
                w.check_all(f"{kind}:uncached read")
        except Violation as vio:
            if True:
                # an edit on one side of a copy that shows on the other side is C12's "edits of the copy do not show through"
                other = getattr(vio, "group", None)
                mine = getattr(w, "last_group", None)
                if self.prop == "C12" and other and mine and other != mine and self._related(w, other, mine):
                    raise Violation("C12", "edit_shows_through", f"{kind} on a drillhole of {mine.split(':')[0]} changed the other side of the group copy: {vio.detail}",
                                    {"op": kind, "cls": "DrillholeGroup", "field": vio.tag}) from None
                raise
        if sim.gc_mode == "op" and random.Random(H(op["sub"], "gcop")).random() < sim.gc_density:
            sim.collect("op")
            w.check_gc()
            w._cache = None
        return outcome

    @staticmethod
    def _related(w, a, b) -> bool:
        """a and b are copies of one another, directly or through other copies (groups that were removed since included)."""
        seen, todo = {a}, [a]
        while todo:
            cur = todo.pop()
            for pair in w.copy_pairs:
                if cur in pair:
                    for other in pair:
                        if other not in seen:
                            seen.add(other)
                            todo.append(other)
        return b in seen

    # ---- creation
    def do_mk_hole(self, w, op):
        from geoh5py.objects import Drillhole

        groups = sorted(w.groups)
        if not groups:
            return "skipped"
        g = op["g"] if op["g"] in w.groups else groups[op["gfb"] % len(groups)]
        group = w.group_ent(g)
        names = [h["name"] for h in w.groups[g]["holes"].values()]
        name = op["name"] if op["name"] not in names else f"{op['name']}_{op['id']}"
        hole, outcome = self.call(w, lambda: Drillhole.create(w.ws[w.groups[g]["h"]], parent=group, name=name, collar=list(op["collar"]),
                                                              surveys=np.array(op["surveys"], dtype=float)), what="mk_hole")
        del group
        if outcome != "ok":
            return outcome
        huid = ustr(hole.uid)
        if huid in w.all_ids(w.groups[g]["h"]):
            raise Violation("C06", "uid_reused", f"new hole reuses identifier {huid}", {"what": "hole"})
        w.groups[g]["holes"][huid] = {"name": name, "data": {}, "pgs": {}, "collar": list(op["collar"]), "surveys": op["surveys"]}
        w.touched = {huid}
        w.created.setdefault(op["id"], []).append((g, huid))
        if op.get("keep"):
            w.slots[(g, huid)] = hole
        w.sim.probe("mk_hole")
        return "ok"

    def _values(self, op, n):
        r = random.Random(op["dseed"])
        dk = op["dk"]
        if dk == "float":
            vals = f32(r, n)
            arr = build.to_np_float(vals)
        elif dk == "text":
            vals = [r.choice(build.TEXTS[1:6]) for _ in range(n)]
            arr = np.array(vals, dtype=str) if n else np.array([], dtype=str)
        else:
            vals = [r.randrange(0, 4) for _ in range(n)]
            arr = np.array(vals, dtype="uint32")
        return vals, arr

    def _do_add(self, w, op):
        res = w.res_hole(op["t"])
        if res is None:
            return "skipped"
        g, hu = res
        hmodel = w.groups[g]["holes"][hu]
        kind = op["kind"]
        n = op["n"]
        r = random.Random(H(op["dseed"], "depth"))
        dk = op["dk"]
        name = op["name"]
        if name in hmodel["data"]:
            name = f"{name}_{op['id']}"
        # choose the table: an existing one of the right type (values must then have its length) or a new set of depths
        tables = {k: v for k, v in hmodel["pgs"].items() if v["type"] == ("Depth table" if kind == "depth" else "Interval table")}
        use_existing = op["existing"] and bool(tables)
        spec: dict = {}
        pg_arg = None
        if use_existing:
            pg_name = sorted(tables)[op["dseed"] % len(tables)]
            members = tables[pg_name]["members"]
            base = hmodel["data"][members[0]]["values"]
            n = len(base)
            if kind == "depth":
                spec["depth"] = build.to_np_float(base)
            else:
                top = hmodel["data"][members[1]]["values"]
                spec["from-to"] = np.c_[build.to_np_float(base), build.to_np_float(top)]
            w.sim.probe(f"add_{kind}_existing_table")
        else:
            start = r.choice([0.0, 1.0, 2.5])
            # depths not collocated with any existing table of this hole
            start += 100.0 * (1 + len(hmodel["pgs"])) + op["id"]
            depths = [start + 2.0 * i for i in range(n)]
            if kind == "depth":
                spec["depth"] = np.array(depths, dtype=float)
            else:
                spec["from-to"] = np.c_[np.array(depths, dtype=float), np.array(depths, dtype=float) + 1.0] if n else np.zeros((0, 2))
            # table names are per table type: the group-wide view assumes equally named tables share their type
            pg_name_new = (op["pg"] + ("_d" if kind == "depth" else "_i")) if op["pg"] else None
            pg_arg = pg_name_new if (pg_name_new and pg_name_new not in hmodel["pgs"]) else None
            w.sim.probe(f"add_{kind}_new_table" if kind == "depth" else "add_interval")
        n_vals = n
        if op["short"] and n > 1 and dk == "float" and not use_existing:
            n_vals = n - 1
        vals, arr = self._values(op, n_vals)
        if n == 0:
            w.sim.probe("len0")
            return "skipped"   # zero-length tables: the library's behaviour is input-domain (C08), kept out of histories
        spec["values"] = arr
        if dk == "text":
            spec["type"] = "TEXT"
        elif dk == "referenced":
            spec["type"] = "referenced"
            spec["value_map"] = dict(build.VALUE_MAP)
        fill = {"float": "nan", "text": "", "referenced": 0}[dk]
        want = list(vals) + [fill] * (n - n_vals)
        if dk == "referenced" and n_vals < n:
            return "skipped"
        if any(name == other["name"] for g2, grp in w.groups.items() for h2, other in grp["holes"].items() if h2 != hu for name2 in other["data"] if name2 == name):
            pass
        if any(name in other["data"] for g2, grp in w.groups.items() for h2, other in grp["holes"].items() if h2 != hu):
            w.sim.probe("same_name_two_holes")
        if (g, name) in w.removed_labels:
            w.sim.probe("rm_middle_then_readd")
        if name in KEYLIKE_NAMES:
            w.keylike = True     # the store maps the label through the format's key table: anything may follow (known finding)
        prev = w.label_dk.setdefault((g, name), dk)
        if prev != dk:
            w.mixed = True   # one label, two primitive types (at once or one after the other): the shared array is coerced (known finding)
        hole = w.hole_ent(g, hu)
        w.touched = {hu}
        # (the library deletes the depth keys from the caller's dictionary: keep our own copy of the columns)
        given = [spec["depth"].tolist()] if kind == "depth" else [spec["from-to"][:, 0].tolist(), spec["from-to"][:, 1].tolist()]
        _, outcome = self.call(w, lambda: hole.add_data({name: dict(spec)}, property_group=pg_arg), what=f"add_{kind} {dk}")
        if outcome != "ok":
            del hole
            return outcome
        expect = {name: want}
        w.adding_dk = dk
        new_names = w.adopt_hole(g, hu, hole, expect, f"add_{kind}:adopt")
        del hole
        for nm in new_names:
            w.touched.add(hmodel["data"][nm]["uid"])
        # the auxiliary depth data of a new table hold the given depths
        if not use_existing:
            aux = [nm for nm in new_names if nm != name]
            if len(aux) != len(given):
                raise Violation(w.v("C04"), "aux_depth", f"add_{kind}: expected {len(given)} auxiliary depth data, got {aux}", {"kind": kind})
            for nm, col in zip(sorted(aux, key=lambda x: (not x.startswith(("DEPTH", "FROM")), x)), given):
                if not compare.same(hmodel["data"][nm]["values"], col):
                    raise Violation(w.v("C04"), "aux_depth", f"add_{kind}: auxiliary {nm} = {hmodel['data'][nm]['values']} expected {col}", {"kind": kind})
        w.created.setdefault(op["id"], []).append((g, hu))
        return "ok"

    do_add_depth = _do_add
    do_add_interval = _do_add

    def do_add_to_pg(self, w, op):
        res = w.res_hole(op["t"], lambda h: bool(h["pgs"]))
        if res is None:
            return "skipped"
        g, hu = res
        hmodel = w.groups[g]["holes"][hu]
        pg_name = sorted(hmodel["pgs"])[op["pick"] % len(hmodel["pgs"])]
        pg = hmodel["pgs"][pg_name]
        if not pg["members"] or pg["type"] not in ("Depth table", "Interval table"):
            return "skipped"
        n = len(hmodel["data"][pg["members"][0]]["values"])
        if n == 0:
            return "skipped"
        name = op["name"] if op["name"] not in hmodel["data"] else f"{op['name']}_{op['id']}"
        n_vals = n   # an existing table takes exactly its number of values
        vals, arr = self._values({**op}, n_vals)
        fill = {"float": "nan", "text": ""}[op["dk"]]
        spec = {"values": arr}
        if op["dk"] == "text":
            spec["type"] = "TEXT"
        hole = w.hole_ent(g, hu)
        w.touched = {hu}
        w.adding_dk = op["dk"]
        if w.label_dk.setdefault((g, name), op["dk"]) != op["dk"]:
            w.mixed = True
        _, outcome = self.call(w, lambda: hole.add_data({name: spec}, property_group=pg_name), what="add_to_pg")
        if outcome != "ok":
            del hole
            return outcome
        new_names = w.adopt_hole(g, hu, hole, {name: list(vals) + [fill] * (n - n_vals)}, "add_to_pg:adopt", allow_aux=False)
        del hole
        for nm in new_names:
            w.touched.add(hmodel["data"][nm]["uid"])
        if name not in hmodel["pgs"].get(pg_name, {"members": []})["members"]:
            raise Violation(w.v("C04"), "pgs_differ", f"add_to_pg: {name!r} not a member of {pg_name!r}", {"where": "add_to_pg"})
        return "ok"

    # ---- updates
    def do_set_values(self, w, op):
        res = self._res_data(w, op["t"], self._plain)
        if res is None:
            return "skipped"
        g, hu, name = res
        hmodel = w.groups[g]["holes"][hu]
        d = hmodel["data"][name]
        n = len(d["values"])
        if n == 0:
            return "skipped"
        cur = d["values"]
        dk = "text" if any(isinstance(x, str) and x != "nan" for x in cur) or all(x == "" for x in cur) and not any(x == "nan" for x in cur) and isinstance(cur[0], str) else "float"
        if isinstance(cur[0], int) and not isinstance(cur[0], bool):
            dk = "referenced"
        length = n
        if op["mode"] == "short" and n > 1 and dk == "float":
            length = n - 1
        elif op["mode"] == "long" and dk != "text":
            length = n + 1
        vals, arr = self._values({"dseed": op["dseed"], "dk": dk}, length)
        fill = {"float": "nan", "text": "", "referenced": 0}[dk]
        hole = w.hole_ent(g, hu)
        data = hole.get_data(name)[0]
        w.touched = {hu, d["uid"]}
        if any(len(dd["values"]) > 0 for nn, dd in hmodel["data"].items() if nn != name):
            w.sim.probe("set_values_longer_data_exists")

        def assign():
            data.values = arr

        expect = "refuse" if (length > n and dk != "text") else "ok"
        _, outcome = self.call(w, assign, expect, what=f"set_values {dk}")
        del data, hole
        if expect == "refuse":
            if outcome == "accepted":
                raise Violation("C07", "long_values_accepted", f"concatenated values setter accepted {length} values for a table of {n}", {"dk": dk, "concat": True})
            w.touched = set()
            return outcome
        if outcome != "ok":
            return outcome
        if length > n:
            return "skipped"
        d["values"] = list(vals) + [fill] * (n - length)
        d["touched"] = True
        return "ok"

    def do_rename_data(self, w, op):
        res = self._res_data(w, op["t"], self._plain)
        if res is None:
            return "skipped"
        g, hu, name = res
        hmodel = w.groups[g]["holes"][hu]
        new = op["new"] if op["new"] not in hmodel["data"] else f"{op['new']}_{op['id']}"
        hole = w.hole_ent(g, hu)
        data = hole.get_data(name)[0]
        w.touched = {hu, hmodel["data"][name]["uid"]}

        def assign():
            data.name = new

        _, outcome = self.call(w, assign, what="rename_data")
        del data, hole
        if outcome != "ok":
            return outcome
        hmodel["data"] = {(new if k == name else k): v for k, v in hmodel["data"].items()}
        for pg in hmodel["pgs"].values():
            pg["members"] = [new if m == name else m for m in pg["members"]]
        return "ok"

    def do_rename_hole(self, w, op):
        res = w.res_hole(op["t"])
        if res is None:
            return "skipped"
        g, hu = res
        hole = w.hole_ent(g, hu)
        w.touched = {hu}

        def assign():
            hole.name = op["new"]

        _, outcome = self.call(w, assign, what="rename_hole")
        del hole
        if outcome != "ok":
            return outcome
        w.groups[g]["holes"][hu]["name"] = op["new"]
        return "ok"

    def do_set_attr(self, w, op):
        res = w.res_hole(op["t"])
        if res is None:
            return "skipped"
        g, hu = res
        hole = w.hole_ent(g, hu)
        w.touched = {hu}

        def assign():
            setattr(hole, op["attr"], op["val"])

        _, outcome = self.call(w, assign, what="set_attr " + op["attr"])
        del hole
        if outcome != "ok":
            return outcome
        w.groups[g]["holes"][hu].setdefault("attrs", {})[op["attr"]] = op["val"]
        return "ok"

    # ---- removals
    def _rm_data(self, w, op, entry):
        res = self._res_data(w, op["t"], self._plain)
        if res is None:
            return "skipped"
        g, hu, name = res
        hmodel = w.groups[g]["holes"][hu]
        d = hmodel["data"][name]
        hole = w.hole_ent(g, hu)
        data = hole.get_data(name)[0]
        w.touched = {hu, d["uid"]}
        # the table's auxiliary depth data go with its last member (documented behaviour of the property group)
        pg_of = next((k for k, v in hmodel["pgs"].items() if name in v["members"]), None)
        will_go = [name]
        if pg_of is not None:
            rest = [m for m in hmodel["pgs"][pg_of]["members"] if m != name]
            if rest and all(hmodel["data"][m].get("protected") for m in rest):
                will_go += rest
        for m in will_go:
            w.touched.add(hmodel["data"][m]["uid"])
        if pg_of is not None:
            w.touched.add(hmodel["pgs"][pg_of]["uid"])
        ws = w.ws[w.groups[g]["h"]]
        regrouped = False
        if self.prop == "C05" and pg_of is not None and len(will_go) == 1 and random.Random(H(op["sub"], "regroup")).random() < 0.3:
            # the data set is first made a member of a SECOND property group of its hole: the removal must take it out of both
            _, out2 = self.call(w, lambda: hole.add_data_to_group(data, "second"), "either", what="regroup")
            regrouped = out2 == "ok"
            if regrouped:
                w.sim.probe("data_in_two_groups")
        if entry == "ws":
            _, outcome = self.call(w, lambda: ws.remove_entity(data), what="rm_data_ws")
        else:
            _, outcome = self.call(w, lambda: hole.remove_children([data]), what="rm_data_parent")
        del data
        if regrouped and outcome == "ok":
            listing = [(pg.name, [ustr(p) for p in (pg.properties or [])]) for pg in (hole.property_groups or [])]
            if any(d["uid"] in props for _, props in listing):
                raise Violation("C05", "pg_keeps_removed", f"removed data {name!r} is still listed by property group(s) {[n for n, p in listing if d['uid'] in p]}", {"where": "concat", "groups": 2})
        del hole
        if outcome != "ok":
            return outcome
        labels_before = [k for k in hmodel["data"]]
        if name == labels_before[-1]:
            w.sim.probe("rm_last_row")
        for m in will_go:
            w.removed.add((w.groups[g]["h"], hmodel["data"][m]["uid"]))
            del hmodel["data"][m]
        if pg_of is not None:
            hmodel["pgs"][pg_of]["members"] = [m for m in hmodel["pgs"][pg_of]["members"] if m not in will_go]
            if not hmodel["pgs"][pg_of]["members"]:
                w.removed.add((w.groups[g]["h"], hmodel["pgs"][pg_of]["uid"]))
                del hmodel["pgs"][pg_of]
        if regrouped:
            # which groups remain (an emptied second group may go with its last member): adopted from LIVE, the clause itself was judged above
            hole = w.hole_ent(g, hu)
            live = w.live_hole(hole)
            del hole
            hmodel["pgs"] = {k: {"uid": v["uid"], "type": v["type"], "members": list(v["members"])} for k, v in live["pgs"].items()}
        w.sim.probe("rm_data_" + entry)
        if name != labels_before[-1] or len(w.groups[g]["holes"]) > 1:
            w.removed_labels.add((g, name))
        return "ok"

    def do_rm_data_ws(self, w, op):
        return self._rm_data(w, op, "ws")

    def do_rm_data_parent(self, w, op):
        return self._rm_data(w, op, "parent")

    def do_rm_protected(self, w, op):
        """The workspace refuses to remove depth data whose delete permission is off; nothing changes."""
        res = self._res_data(w, op["t"], lambda n, d: d.get("protected"))
        if res is None:
            return "skipped"
        g, hu, name = res
        hole = w.hole_ent(g, hu)
        data = hole.get_data(name)[0]
        ws = w.ws[w.groups[g]["h"]]
        _, outcome = self.call(w, lambda: ws.remove_entity(data), "refuse", what="rm_protected")
        del data, hole
        if outcome == "accepted":
            raise Violation("C05", "protected_removed", f"remove_entity accepted concatenated data {name!r} with allow_delete off", {"cls_kind": "concat data"})
        w.sim.probe("rm_refused")
        w.check_all("rm_protected:refused")
        return outcome

    def _rm_hole(self, w, op, entry):
        res = w.res_hole(op["t"])
        if res is None:
            return "skipped"
        g, hu = res
        hmodel = w.groups[g]["holes"][hu]
        hole = w.hole_ent(g, hu)
        w.touched = {hu} | {d["uid"] for d in hmodel["data"].values()} | {p["uid"] for p in hmodel["pgs"].values()}
        ws = w.ws[w.groups[g]["h"]]
        if entry == "ws":
            _, outcome = self.call(w, lambda: ws.remove_entity(hole), what="rm_hole_ws")
        else:
            group = w.group_ent(g)
            _, outcome = self.call(w, lambda: group.remove_children([hole]), what="rm_hole_parent")
            del group
        del hole
        if outcome != "ok":
            return outcome
        w.removed |= {(w.groups[g]["h"], u) for u in w.touched}
        w.slots.pop((g, hu), None)
        del w.groups[g]["holes"][hu]
        w.sim.probe("rm_hole_" + entry)
        return "ok"

    def do_rm_hole_ws(self, w, op):
        return self._rm_hole(w, op, "ws")

    def do_rm_hole_parent(self, w, op):
        return self._rm_hole(w, op, "parent")

    def do_rm_pg(self, w, op):
        res = w.res_hole(op["t"], lambda h: bool(h["pgs"]))
        if res is None:
            return "skipped"
        g, hu = res
        hmodel = w.groups[g]["holes"][hu]
        pg_name = sorted(hmodel["pgs"])[op["pick"] % len(hmodel["pgs"])]
        pg = hmodel["pgs"][pg_name]
        hole = w.hole_ent(g, hu)
        live_pg = [p for p in (hole.property_groups or []) if p.name == pg_name]
        if not live_pg:
            raise Violation(w.v("C04"), "pgs_differ", f"rm_pg: property group {pg_name!r} missing live", {"where": "rm_pg"})
        w.touched = {hu, pg["uid"]} | {hmodel["data"][m]["uid"] for m in pg["members"]}
        ws = w.ws[w.groups[g]["h"]]
        _, outcome = self.call(w, lambda: ws.remove_entity(live_pg[0]), what="rm_pg")
        del live_pg, hole
        if outcome != "ok":
            return outcome
        for m in pg["members"]:
            w.removed.add((w.groups[g]["h"], hmodel["data"][m]["uid"]))
            del hmodel["data"][m]
        w.removed.add((w.groups[g]["h"], pg["uid"]))
        del hmodel["pgs"][pg_name]
        w.sim.probe("rm_pg")
        return "ok"

    # ---- copies
    def do_copy_hole(self, w, op):
        res = w.res_hole(op["t"])
        if res is None:
            return "skipped"
        g, hu = res
        hmodel = w.groups[g]["holes"][hu]
        hole = w.hole_ent(g, hu)
        group = w.group_ent(g)
        new, outcome = self.call(w, lambda: hole.copy(parent=group), what="copy_hole")
        del hole, group
        if outcome != "ok" or new is None:
            return outcome if outcome != "ok" else "raised:None"
        nuid = ustr(new.uid)
        if nuid in w.all_ids(w.groups[g]["h"]):
            raise Violation("C06", "uid_reused", f"copied hole reuses identifier {nuid}", {"what": "hole copy"})
        live = w.live_hole(new)
        self._judge_copy(w, hmodel, live, new.name, "copy_hole")
        w.groups[g]["holes"][nuid] = {"name": new.name, "collar": hmodel.get("collar"), "surveys": hmodel.get("surveys"),
                                      "data": {n: {"uid": v["uid"], "values": v["values"], "protected": not v["allow_delete"]} for n, v in live["data"].items()},
                                      "pgs": {k: {"uid": v["uid"], "type": v["type"], "members": list(v["members"])} for k, v in live["pgs"].items()}}
        w.touched = {nuid} | {v["uid"] for v in live["data"].values()} | {v["uid"] for v in live["pgs"].values()}
        del new
        w.sim.probe("copy_hole")
        return "ok"

    def _judge_copy(self, w, hmodel, live, new_name, where):
        w.sim.oracle("copy_equal")
        if new_name != hmodel["name"]:
            raise Violation("C12", "copy_differs", f"{where}: name {new_name!r} vs {hmodel['name']!r}", {"cls": "ConcatenatedDrillhole", "field": "name"})
        if set(live["data"]) != set(hmodel["data"]):
            raise Violation("C12", "copy_differs", f"{where}: data {sorted(live['data'])} vs source {sorted(hmodel['data'])}", {"cls": "ConcatenatedDrillhole", "field": "children"})
        for name, d in hmodel["data"].items():
            if not compare.same(live["data"][name]["values"], d["values"]):
                raise Violation("C12", "copy_differs", f"{where}: data {name!r} values {compare._short(live['data'][name]['values'])} vs source {compare._short(d['values'])}",
                                {"cls": "ConcatenatedDrillhole", "field": "values"})
        if {k: v["members"] for k, v in live["pgs"].items()} != {k: v["members"] for k, v in hmodel["pgs"].items()}:
            raise Violation("C12", "copy_differs", f"{where}: property groups differ from the source", {"cls": "ConcatenatedDrillhole", "field": "pgs"})

    def do_copy_group(self, w, op):
        groups = sorted(w.groups)
        if not groups:
            return "skipped"
        g = op["g"] if op["g"] in w.groups else groups[op["gfb"] % len(groups)]
        dh = op["dh"] if op["dh"] in w.ws else w.groups[g]["h"]
        guid_plain = g.split(":", 1)[1]
        again = f"{dh}:{guid_plain}" in w.groups or any(hu in w.all_ids(dh) for hu in w.groups[g]["holes"])
        if again and dh != w.groups[g]["h"] and w.cfg.get("avoid_known"):
            return "skipped"   # known finding: a second cross-workspace copy of a drillhole group raises (identifiers in use)
        if op.get("fresh_source") and dh != w.groups[g]["h"] and self.prop in ("C12", "C04"):
            # the source workspace was just opened and nothing of the group has been read yet (what a copy takes along must not
            # depend on what the caller happened to look at before)
            from geoh5py import Workspace

            src_h = w.groups[g]["h"]
            w.slots.clear()
            w.ws[src_h].close()
            w.ws[src_h] = Workspace(w.paths[src_h], mode="r+")
            w._cache = None
            w.sim.probe("copy_from_unread_source")
        group = w.group_ent(g)
        target = w.ws[dh]
        # (a second copy into a workspace that already holds the holes' identifiers raises: C12's known finding, whichever check runs)
        new, outcome = self.call(w, lambda: group.copy(parent=target), "either" if (self.prop == "C12" or (again and dh != w.groups[g]["h"])) else "ok", what="copy_group")
        del group
        if outcome.startswith("refused") and (self.prop == "C12" or (again and dh != w.groups[g]["h"])):
            # (in every check: the half-made group the failed copy leaves in the target is part of this finding)
            raise Violation("C12", "copy_raises", f"copying a drillhole group to {'another' if dh != w.groups[g]['h'] else 'the same'} workspace raised "
                            f"{outcome.split(':')[1]}", {"cls": "DrillholeGroup", "exc": outcome.split(":")[1], "again": again})
        if outcome != "ok" or new is None:
            return outcome if outcome != "ok" else "raised:None"
        nguid = f"{dh}:{ustr(new.uid)}"
        cross = dh != w.groups[g]["h"]
        if nguid in w.groups:
            raise Violation("C06", "uid_reused", f"copied group reuses identifier {nguid}", {"what": "group copy"})
        model_new = {"h": dh, "name": w.groups[g]["name"], "holes": {}}
        if op.get("blind") and cross and self.prop != "C12" and sorted(ustr(u) for u in (new.concatenated_object_ids or [])) == sorted(w.groups[g]["holes"]):
            # the caller does not look at the copy (observer effect: reading the copied data would keep their types alive): the copy
            # is taken to equal its source (same identifiers -- the fast path keeps them), references are dropped, a collection runs,
            # and an UNRELATED entity is created and removed in the target workspace; later reads and the closed file decide
            import copy as _copy

            from geoh5py.objects import Points

            model_new["holes"] = _copy.deepcopy(w.groups[g]["holes"])
            del new
            for key in [k for k in w.slots if k[0] in (g, nguid)]:
                del w.slots[key]
            w.sim.collect("blind_copy")
            bystander = Points.create(target, vertices=np.zeros((2, 3)), name="bystander")
            target.remove_entity(bystander)
            del bystander
            w.groups[nguid] = model_new
            for (gg, label), dk in list(w.label_dk.items()):
                if gg == g:
                    w.label_dk.setdefault((nguid, label), dk)
            w.copy_pairs.add(frozenset((g, nguid)))
            w.created_groups = {nguid}
            w.touched = {nguid}
            w.sim.probe("copy_group_cross_unread")
            w.__dict__.setdefault("unread_copies", set()).add(nguid)
            return "ok"
        live_holes = [c for c in new.children if snapshot.kind_of(c) == "object"]
        src_by_name = {}
        for hu, hm in w.groups[g]["holes"].items():
            src_by_name.setdefault(hm["name"], []).append(hm)
        if sorted(h.name for h in live_holes) != sorted(hm["name"] for hm in w.groups[g]["holes"].values()):
            raise Violation("C12", "copy_differs", f"copy_group: holes {sorted(h.name for h in live_holes)} vs source", {"cls": "DrillholeGroup", "field": "children"})
        used = set()
        for hole in live_holes:
            live = w.live_hole(hole)
            cands = [hm for hm in src_by_name[hole.name] if id(hm) not in used]
            match = None
            for hm in cands:
                try:
                    self._judge_copy(w, hm, live, hole.name, "copy_group")
                    match = hm
                    break
                except Violation as vio:
                    last = vio
            if match is None:
                raise last
            used.add(id(match))
            model_new["holes"][ustr(hole.uid)] = {
                "name": hole.name, "collar": match.get("collar"), "surveys": match.get("surveys"),
                "data": {n: {"uid": v["uid"], "values": v["values"], "protected": not v["allow_delete"]} for n, v in live["data"].items()},
                "pgs": {k: {"uid": v["uid"], "type": v["type"], "members": list(v["members"])} for k, v in live["pgs"].items()}}
        del live_holes, new
        w.groups[nguid] = model_new
        # the copy inherits the primitive type each data label holds (mixing types under one label is the C04 known finding)
        for (gg, label), dk in list(w.label_dk.items()):
            if gg == g:
                w.label_dk.setdefault((nguid, label), dk)
        w.copy_pairs.add(frozenset((g, nguid)))
        w.created_groups = {nguid}
        w.touched = {nguid}
        w.sim.probe("copy_group_cross" if cross else "copy_group_same")
        if cross and self.prop == "C12":
            w.edit_copy_next = {nguid}
        return "ok"

    # ---- views
    def do_table(self, w, op):
        res = w.res_hole(op["t"], lambda h: bool(h["pgs"]))
        if res is None:
            return "skipped"
        g, hu = res
        hmodel = w.groups[g]["holes"][hu]
        pg_name = sorted(hmodel["pgs"])[op["pick"] % len(hmodel["pgs"])]
        group = w.group_ent(g)
        tables, outcome = self.call(w, lambda: group.drillholes_tables, "either", what="tables")
        if outcome != "ok" or pg_name not in tables:
            del group
            return "skipped"
        table, outcome = self.call(w, lambda: tables[pg_name].depth_table, "either", what="depth_table")
        names = None
        if outcome == "ok":
            names = list(table.dtype.names)
        del group, tables
        if outcome != "ok":
            w.sim.probe("table_raises")
            return "skipped"
        w.sim.oracle("depth_table")
        # rows of each hole (by its identifier) equal the hole's values column by column
        by_hole: dict[str, list] = {}
        order = []
        for row in table:
            key = snapshot.canon(row["Drillhole"])
            if key not in by_hole:
                by_hole[key] = []
                order.append(key)
            elif order[-1] != key:
                raise Violation(w.v("C04"), "table_not_contiguous", f"rows of hole {key} are not contiguous in the table of {pg_name!r}", {})
            by_hole[key].append([snapshot.canon(row[n]) for n in names[1:]])
        # (the view is keyed by the names of the depth columns: a hole whose equally named table got other
        #  auto-generated depth names, e.g. DEPTH(1), is outside this view -- not judged)
        holes_with = {h2: hm for h2, hm in w.groups[g]["holes"].items() if pg_name in hm["pgs"]
                      and all(c in hm["data"] for c in names[1:2])}
        # the view aggregates by data name: holes whose table has another name but the same data names are listed too
        if not set(holes_with) <= set(by_hole) or not set(by_hole) <= set(w.groups[g]["holes"]):
            raise Violation(w.v("C04"), "table_holes", f"table {pg_name!r} lists holes {sorted(by_hole)} expected at least {sorted(holes_with)}", {})
        for h2 in by_hole:
            hm = w.groups[g]["holes"][h2]
            if pg_name not in hm["pgs"]:
                # listed only because it owns data with the view's column names (in other tables): the view is keyed by
                # data names, which data of such a hole it shows is not defined by the property -- not judged
                w.sim.probe("table_lists_hole_without_group")
                continue
            members = hm["pgs"][pg_name]["members"]
            depth_cols = names[1:3] if len(names) > 2 and names[1].upper().startswith("FROM") else names[1:2]
            if not all(c in members for c in depth_cols):
                # this hole's table of that name has differently named depth columns (DEPTH(1), ...): the view, keyed by
                # data names, shows another table of the hole here -- not judged
                w.sim.probe("table_other_depth_column")
                continue
            n = len(hm["data"][members[0]]["values"]) if members else 0
            for ci, col in enumerate(names[1:]):
                got = [r[ci] for r in by_hole[h2]]
                if col in hm["data"] and col in members:
                    want = hm["data"][col]["values"]
                    if not compare.same(got, want):
                        raise Violation(w.v("C04"), "table_values", f"table {pg_name!r} column {col!r} of hole {hm['name']}: {compare._short(got)} expected {compare._short(want)}", {})
                elif len(got) != n:
                    raise Violation(w.v("C04"), "table_values", f"table {pg_name!r} column {col!r}: {len(got)} rows for a hole with {n} depths", {})
        return "ok"

    # ---- schedule
    def do_gc(self, w, op):
        w.sim.collect("event")
        return "ok"

    def do_drop(self, w, op):
        w.slots.clear()
        return "ok"

    def do_close_reopen(self, w, op, same=False):
        h = op.get("h", "A")
        if h not in w.ws:
            h = "A"
        self.boundary(w, h, same)
        return "ok"

    def do_reopen_same(self, w, op):
        return self.do_close_reopen(w, op, same=True)

    @staticmethod
    def _stale_removed(w, raw, h):
        """Removed identifiers are absent from the file: no attribute record, no index row."""
        recs_ids = set()
        for name, node in raw["flat"]["Groups"].items():
            if node.get("concat") and isinstance(node["concat"]["attributes"], list):
                recs_ids |= {r.get("ID") for r in node["concat"]["attributes"] if isinstance(r, dict)}
                try:
                    rows_by_label = rawgeoh5.concat_rows(node)
                except Exception:  # pylint: disable=broad-except   (malformed tables are the structural rules' business)
                    rows_by_label = {}
                for label, rows in rows_by_label.items():
                    for start, size, obj, dat in rows:
                        recs_ids.add(obj)
                        recs_ids.add(dat)
        stale = ({u for (hh, u) in w.removed if hh == h} - w.all_ids(h)) & recs_ids
        if stale:
            raise Violation(w.v("C05"), "file_keeps_removed", f"the closed file still holds records or rows of removed {sorted(stale)[:3]}", {"where": "concat"})

    def boundary(self, w, h, same, final=False):
        from geoh5py import Workspace

        ws = w.ws[h]
        for key in [k for k in w.slots if w.groups.get(k[0], {}).get("h") == h]:
            del w.slots[key]
        before = w.raw_digest().get(h)
        ws.close()
        w.sim.fault("ev:close")
        raw = rawgeoh5.read(w.paths[h])
        if self.prop == "C05":
            self._stale_removed(w, raw, h)      # (a removal check asks this first: rows of a removed hole are its finding, not the store's)
        w.raw_rules(raw, h, "close:closed file", closed=True)
        # R16: the type every stored data record names exists under Types (a type node may only go with its last user)
        for name, node in raw["flat"]["Groups"].items():
            if node.get("concat") and isinstance(node["concat"]["attributes"], list):
                for rec in node["concat"]["attributes"]:
                    if not isinstance(rec, dict):
                        continue
                    # (data types only: a hole whose object type node is missing is still read -- the class supplies its type; a data
                    #  record whose type node is missing cannot be read at all)
                    for key, tkind in (("Type ID", "Data types"),):
                        if key in rec and rec[key] not in raw["types"].get(tkind, {}):
                            raise Violation(w.v("C04", after_removal=bool(w.removed)), "concat_R16",
                                            f"close:closed file: Groups/{name}: record {rec.get('ID')} ({rec.get('Name')!r}) names type {rec[key]}, which is not under Types/{tkind}",
                                            {"rule": "R16", "where": "close", "closed": True})
        errs = rawgeoh5.validate(raw, concat=False)
        errs = [e for e in errs if e[0] != "R8"] if self.prop != "C02" else errs
        if errs:
            raise Violation("C02", "struct_" + errs[0][0], errs[0][1], {"rule": errs[0][0], "concat": True})
        self._stale_removed(w, raw, h)
        if before is not None:
            changed = rawgeoh5.diff_digests(before[1], rawgeoh5.digests(raw))
            for key, subs in sorted(changed.items()):
                if key.startswith("C/"):
                    raise Violation(w.v("C04") if self.prop != "C09" else "C09", "rows_changed", f"close changed rows {key} {sorted(subs)}", {"where": "close", "label_kind": "data"})
        w.states.add(rawgeoh5.sha(sorted((hm["name"], sorted(hm["data"])) for grp in w.groups.values() for hm in grp["holes"].values())))
        if final:
            w.ws[h] = None
            return
        try:
            if same:
                ws.open()
            else:
                w.ws[h] = None
                del ws
                w.ws[h] = Workspace(w.paths[h], mode="r+")
        except Exception as err:  # pylint: disable=broad-except
            raise Violation(w.v("C04"), "reopen_fails", f"re-opening raised {type(err).__name__}: {str(err)[:120]}", {"exc": type(err).__name__}) from None
        w.sim.probe("reopen")
        # (sparse runs: half of the re-opens are not followed by a full read, so that later operations meet entities whose
        #  values were never loaded; the next observed event or the final re-open still reads everything)
        if w.cfg.get("peek", "always") == "always" or random.Random(H(w.sim.seed, "peek-reopen", len(w.trace))).random() < 0.5:
            w.check_all("reopen:after re-open")
        else:
            w.sim.probe("reopen_unread")
        # attributes assigned on holes survive (C03 for concatenated entities)
        for g, grp in w.groups.items():
            if grp["h"] != h:
                continue
            for hu, hm in grp["holes"].items():
                if not hm.get("attrs"):
                    continue
                hole = w.hole_ent(g, hu)
                for attr, val in hm["attrs"].items():
                    got = snapshot.canon(getattr(hole, attr))
                    if not compare.attr_same(got, snapshot.canon(val)):
                        raise Violation("C03", "attr_lost", f"hole {hm['name']}: {attr} = {got} after re-open, assigned {val}", {"attr": attr, "concat": True})
                del hole
