"""
The geometry machine (C07): point / curve / surface objects whose every vertex and cell carries a unique tag
(stored as one of the data sets), so that alignment between data and geometry is decidable by attribution after
any mix of data additions, value assignments, vertex / cell removals, masked copies, re-opens, GC points and
rejected calls.
"""

from __future__ import annotations

import random

import numpy as np

from . import build, compare, rawgeoh5, snapshot
from .kernel import H, Sim, Violation
from .scenarios import BaseScenario
from .snapshot import ustr

KINDS = {"add_data": 8, "set_values": 6, "rm_vertices": 7, "rm_cells": 5, "masked_copy": 4, "data_masked_copy": 3, "cross_assign": 5, "bad_call": 3, "gc": 3, "reopen": 4, "reopen_same": 1, "switch": 2}
DKINDS = ["float", "integer", "boolean", "text", "referenced"]


def value_of(dkind, tag):
    return {"float": tag * 0.5, "integer": tag * 3, "boolean": tag % 2, "text": f"t{tag}", "referenced": tag % 4}[dkind]


def np_of(dkind, vals, r=None):
    """The array a caller hands over; with r, in any number type that holds the values exactly (narrow ones included)."""
    if dkind == "float":
        return np.array([np.nan if v == "nan" else v for v in vals], dtype=float if r is None or r.random() < 0.7 else "float32")
    if dkind == "integer":
        fits = ["int32", "int64"] + (["int16"] if all(abs(v) < 32000 for v in vals) else []) + (["int8"] if all(abs(v) < 127 for v in vals) else []) \
            + (["uint8"] if all(0 <= v < 256 for v in vals) else []) + (["uint16"] if all(0 <= v < 65000 for v in vals) else [])
        return np.array(vals, dtype="int32" if r is None or r.random() < 0.5 else fits[r.randrange(len(fits))])
    if dkind == "boolean":
        return np.array(vals, dtype=bool)
    if dkind == "referenced":
        return np.array(vals, dtype="uint32" if r is None or r.random() < 0.5 else ("uint8", "uint16", "int32", "int64")[r.randrange(4)])
    return np.array(vals, dtype=str)


FILL = {"float": "nan", "integer": -2147483648, "boolean": 0, "referenced": -2147483648, "text": ""}


class Obj:
    """Model of one object: tags in order, coordinates per tag, cells as tuples of vertex tags, data per tag."""

    def __init__(self, uid, cls):
        self.uid = uid
        self.cls = cls
        self.vtags: list[int] = []
        self.coords: dict[int, list] = {}
        self.ctags: list[int] = []
        self.cells: dict[int, tuple] = {}
        self.data: dict[str, dict] = {}     # name -> {"assoc", "dkind", "values": {tag: value}}


class GeometryScenario(BaseScenario):
    prop = "C07"

    def __init__(self, prop="C07"):
        self.prop = prop      # C01: the same histories judged for memory / file equivalence (geometry and values, after every operation)
        self.expected_probes = ["rm_vertices_unused_only", "rm_vertices_repeated_index", "rm_vertices_unsorted", "rm_cells", "rm_all_but_one", "masked_copy",
                                "short_padded", "long_refused", "bad_index_refused", "reopen", "text_data_follows"]
        self.rule = ("one evaluation = one seeded history on 1-2 point / curve / surface objects (meshes with vertices used by no cell, repeated and unsorted index "
                     "lists) whose vertices and cells carry unique tags stored as data: add data (exact / short / long), assign values, remove_vertices, "
                     "remove_cells, masked copy, rejected calls (out-of-range index, wrong shape, too many values), re-open, GC points, clear_cache on/off. "
                     "After every operation each data array has one entry per surviving element, entry i belongs to the element at position i (by tag), cells "
                     "join the same coordinates as before; live and, at every re-open, stored. distinct = distinct abstract trace; non-trivial = >= 2 removals or "
                     "assignments and >= 1 re-open / GC after one of them.")
        self.assumptions = ["values are exactly representable", "exact spatial selection (which elements a box selects) is C13: the mask of a masked copy is given directly"]

    def make_config(self, rng):
        return {"version": 2.1, "gc": rng.choices(["none", "op", "io", "line"], [3, 4, 3, 1])[0], "gc_density": rng.choice([0.2, 0.5]), "h5repack": "absent",
                "n_ops": rng.choice([4, 8, 12, 18]), "clear_cache": rng.random() < 0.4, "classes": rng.choice([["Points"], ["Curve"], ["Surface"], ["Curve", "Surface"], ["Points", "Curve"]])}

    def simplify_config(self, cfg):
        out = []
        if cfg.get("gc") != "none":
            out.append({**cfg, "gc": "none"})
        if cfg.get("clear_cache"):
            out.append({**cfg, "clear_cache": False})
        return out

    # ------------------------------------------------------------------------------------------
    def build(self, ws, cls, r, w):
        from geoh5py import objects

        n = r.choice([3, 4, 6, 8])
        verts = [[build.fval(r), build.fval(r), build.fval(r)] for _ in range(n)]
        kw = {"vertices": np.array(verts), "name": f"{cls}{len(w['objs'])}"}
        cells = None
        if cls == "Curve":
            m = r.randint(1, n)
            cells = [[r.randrange(n), r.randrange(n)] for _ in range(m)]
        elif cls == "Surface":
            m = r.randint(1, 5)
            cells = [r.sample(range(n), 3) for _ in range(m)]
        if cells is not None:
            # leave some vertices unused in a share of the meshes
            kw["cells"] = np.array(cells, dtype="uint32")
        ent = getattr(objects, cls).create(ws, **kw)
        obj = Obj(ent.uid, cls)
        for i, xyz in enumerate(verts):
            tag = w["next_tag"]
            w["next_tag"] += 1
            obj.vtags.append(tag)
            obj.coords[tag] = xyz
        ent.add_data({"tagV": {"values": np.array(obj.vtags, dtype=float), "association": "VERTEX"}})
        obj.data["tagV"] = {"assoc": "VERTEX", "dkind": "float", "values": {t: float(t) for t in obj.vtags}}
        if cells is not None:
            for cell in cells:
                tag = w["next_tag"]
                w["next_tag"] += 1
                obj.ctags.append(tag)
                obj.cells[tag] = tuple(obj.vtags[i] for i in cell)
            ent.add_data({"tagC": {"values": np.array(obj.ctags, dtype=float), "association": "CELL"}})
            obj.data["tagC"] = {"assoc": "CELL", "dkind": "float", "values": {t: float(t) for t in obj.ctags}}
        del ent
        return obj

    def ent(self, ws, obj):
        ent = ws.get_entity(obj.uid)[0]
        if ent is None:
            raise Violation("C07", "lookup_lost", "object not found", {})
        return ent

    # ---- the oracle
    def check(self, sim, ws, obj, where, stored=False, failed=None):
        """failed: the operation raised -- it may have been applied partly; whatever survives must be mutually consistent."""
        try:
            return self._check(sim, ws, obj, where, stored, failed)
        except Violation:
            raise
        except Exception as err:  # pylint: disable=broad-except
            # a public getter of the object or of one of its data refuses to answer (the library's own length check, usually)
            import traceback

            at = traceback.extract_tb(err.__traceback__)[-1].name
            discr = {"where": where.split(":")[0], "cls": obj.cls, "exc": type(err).__name__}
            if failed:
                discr["after_failed_call"] = failed
            raise Violation("C07", "unreadable", f"{where}: reading geometry / values through the public getters raised {type(err).__name__}: {str(err)[:120]} (in {at})", discr) from None

    def _check(self, sim, ws, obj, where, stored=False, failed=None):
        sim.oracle("alignment")
        ent = self.ent(ws, obj)
        discr = {"where": where.split(":")[0], "cls": obj.cls}
        if failed:
            discr["after_failed_call"] = failed
        verts = ent.vertices
        n_v = 0 if verts is None else verts.shape[0]
        tagv = ent.get_data("tagV")[0].values
        if tagv is None or len(tagv) != n_v:
            raise Violation("C07", "count_mismatch", f"{where}: {n_v} vertices but vertex data has {None if tagv is None else len(tagv)} entries", {**discr, "assoc": "VERTEX", "data": "tag"})
        tags = [int(t) if t == t else None for t in tagv.tolist()]
        if failed and None not in tags and set(tags) <= set(obj.vtags) and len(set(tags)) == len(tags):
            pass     # a failed call may have removed some elements; consistency is judged below
        elif sorted(t for t in tags if t is not None) != sorted(obj.vtags) or None in tags:
            raise Violation("C07", "survivors_differ", f"{where}: surviving vertex tags {tags} expected {obj.vtags}", {**discr, "assoc": "VERTEX"})
        for i, tag in enumerate(tags):
            if not compare.same(verts[i].tolist(), obj.coords[tag]):
                raise Violation("C07", "vertex_value_shifted", f"{where}: vertex {i} has coordinates {verts[i].tolist()} but carries the tag of {obj.coords[tag]}",
                                {**discr, "assoc": "VERTEX"})
        obj.vtags = tags     # adopt the order (the library may reorder; alignment is what is judged)
        ctags = []
        if obj.cls != "Points":
            cells = ent.cells
            n_c = 0 if cells is None else cells.shape[0]
            tagc = ent.get_data("tagC")[0].values
            if tagc is None or len(tagc) != n_c:
                raise Violation("C07", "count_mismatch", f"{where}: {n_c} cells but cell data has {None if tagc is None else len(tagc)} entries", {**discr, "assoc": "CELL", "data": "tag"})
            ctags = [int(t) if t == t else None for t in tagc.tolist()]
            if failed and None not in ctags and set(ctags) <= set(obj.ctags) and len(set(ctags)) == len(ctags):
                pass
            elif sorted(t for t in ctags if t is not None) != sorted(obj.ctags) or None in ctags:
                raise Violation("C07", "survivors_differ", f"{where}: surviving cell tags {ctags} expected {obj.ctags}", {**discr, "assoc": "CELL"})
            for j, ctag in enumerate(ctags):
                idx = cells[j].tolist()
                if any(i < 0 or i >= n_v for i in idx):
                    raise Violation("C07", "cell_out_of_range", f"{where}: cell {j} references vertex {idx} of {n_v}", discr)
                got = [verts[i].tolist() for i in idx]
                want = [obj.coords[t] for t in obj.cells[ctag]]
                if not compare.same(got, want):
                    raise Violation("C07", "cell_reconnected", f"{where}: cell {j} joins {got}; before it joined {want}", discr)
            obj.ctags = ctags
        for name, d in obj.data.items():
            if name in ("tagV", "tagC"):
                continue
            found = ent.get_data(name)
            if not found:
                raise Violation("C07", "data_lost", f"{where}: data {name!r} is gone", discr)
            vals = snapshot.values_of(found[0])
            order = obj.vtags if d["assoc"] == "VERTEX" else obj.ctags
            if d["values"] is None:
                if vals is not None and len(vals) != len(order):
                    raise Violation("C07", "count_mismatch", f"{where}: data {name!r} (declared without values) has {len(vals)} entries for {len(order)} elements",
                                    {**discr, "assoc": d["assoc"], "data": "valueless"})
                continue
            if vals is None or len(vals) != len(order):
                raise Violation("C07", "count_mismatch", f"{where}: data {name!r} ({d['dkind']}, {d['assoc']}) has {None if vals is None else len(vals)} entries for {len(order)} elements",
                                {**discr, "assoc": d["assoc"], "data": d["dkind"]})
            want = [d["values"][t] for t in order]
            if not compare.same(vals, want):
                raise Violation("C07", "value_detached", f"{where}: data {name!r} ({d['dkind']}) = {compare._short(vals)} but the elements carry {compare._short(want)}",
                                {**discr, "assoc": d["assoc"], "data": d["dkind"]})
            if d["dkind"] == "text":
                sim.probe("text_data_follows")
        del ent

    def memory_vs_file(self, sim, ws, w, where):
        """C01: what the objects and their data report equals what the file holds now (independent reader on the open handle)."""
        sim.oracle("memory_vs_file")
        stored = {k: compare.normalise_raw(v) for k, v in rawgeoh5.decode_tree(rawgeoh5.read(ws.geoh5)).items()}
        for obj in w["objs"]:
            ent = self.ent(ws, obj)
            live = snapshot.subtree(ws, ent)
            del ent
            have = {u: stored[u] for u in live if u in stored}
            diffs = compare.diff_trees(live, have, "LIVE", "RAW", fields=("arrays", "values", "children"))
            if diffs:
                field = diffs[0].split(" ")[1].rstrip(":") if len(diffs[0].split(" ")) > 1 else "?"
                raise Violation("C01", "state_differs", f"{where}: {diffs[0]}", {"field": field, "kind": "object", "cls": obj.cls, "view": "RAW"})

    # ------------------------------------------------------------------------------------------
    def execute(self, seed, program=None):
        from geoh5py import Workspace

        rng = random.Random(H(seed, "program"))
        if program is None:
            cfg, ops = self.make_config(rng), None
        else:
            cfg, ops = program["config"], program["ops"]
        sim = Sim(seed, cfg)
        executed, trace = [], []
        status, violation = "ok", None
        n_mut = n_fault = 0
        last_mut = False
        with sim.running():
            try:
                path = sim.path("g.geoh5")
                ws = Workspace.create(path, ga_version="4.2", contributors=["sim"])
                w = {"objs": [], "next_tag": 1}
                brng = random.Random(H(seed, "build"))
                sim.begin_op(H(seed, "ids"))
                for cls in cfg["classes"]:
                    w["objs"].append(self.build(ws, cls, brng, w))
                sim.end_op()
                for obj in w["objs"]:
                    self.check(sim, ws, obj, "build:initial")
                n_ops = len(ops) if ops is not None else cfg["n_ops"]
                for i in range(n_ops):
                    if ops is not None:
                        op = ops[i]
                    else:
                        kinds = sorted(KINDS)
                        op = {"id": i, "k": rng.choices(kinds, [KINDS[k] for k in kinds])[0], "sub": rng.getrandbits(64), "o": rng.randrange(4)}
                    executed.append(op)
                    kind = op["k"]
                    obj = w["objs"][op["o"] % len(w["objs"])]
                    r = random.Random(H(op["sub"], "args"))
                    sim.begin_op(op["sub"])
                    try:
                        outcome = getattr(self, "do_" + kind)(sim, ws, w, obj, r, cfg, path)
                    finally:
                        sim.end_op()
                    if isinstance(outcome, tuple):
                        ws, outcome = outcome
                    sim.drain_warnings()
                    if kind in ("add_data", "set_values", "rm_vertices", "rm_cells", "masked_copy", "cross_assign") and outcome == "ok":
                        n_mut += 1
                        last_mut = True
                    elif kind in ("gc", "reopen", "reopen_same"):
                        n_fault += 1 if last_mut else 0
                        sim.fault("ev:" + kind)
                        last_mut = False
                    trace.append(f"{kind}:{obj.cls}:{outcome}")
                    sim.record("op", op["id"], kind, obj.cls, outcome, [len(o.vtags) for o in w["objs"]])
                    for o in w["objs"]:
                        self.check(sim, ws, o, f"{kind}:after", failed=(outcome.split(":")[1] if outcome.startswith("raised") and o is obj else None))
                    if self.prop == "C01" and not outcome.startswith("raised"):
                        self.memory_vs_file(sim, ws, w, f"{kind}:after")
                    if sim.gc_mode == "op" and random.Random(H(op["sub"], "gcop")).random() < sim.gc_density:
                        sim.collect("op")
                ws.close()
                ws = Workspace(path, mode="r")
                for o in w["objs"]:
                    self.check(sim, ws, o, "final:re-opened")
                ws.close()
            except Violation as vio:
                violation = {"prop": vio.prop, "tag": vio.tag, "detail": vio.detail, "discr": vio.discr, "event": sim.events}
                sim.record("violation", vio.prop, vio.tag, vio.discr)
                status = "violation" if vio.prop == self.prop else "foreign"
            stats = {"events": sim.events, "ops": len(executed), "faults": dict(sim.faults), "probes": dict(sim.probes), "oracle_evals": dict(sim.oracle_evals),
                     "trace_hash": rawgeoh5.sha(trace), "nontrivial": n_mut >= 2 and n_fault >= 1, "states": [], "clock_lo": sim.clock.lo, "clock_hi": sim.clock.hi,
                     "cell": "+".join(cfg["classes"])}
            digest = sim.digest()
            try:
                if ws._geoh5:  # pylint: disable=protected-access
                    ws.close()
            except Exception:  # pylint: disable=broad-except
                pass
        return {"status": status, "violation": violation, "suspect": None, "program": {"config": cfg, "ops": executed}, "stats": stats, "digest": digest}

    # ---- operations
    def do_add_data(self, sim, ws, w, obj, r, cfg, path):
        assoc = "VERTEX" if obj.cls == "Points" or r.random() < 0.5 else "CELL"
        order = obj.vtags if assoc == "VERTEX" else obj.ctags
        n = len(order)
        dkind = r.choice(DKINDS)
        mode = r.choices(["exact", "short", "long"], [6, 2, 2])[0]
        if n == 0 and (dkind == "text" or assoc != "CELL"):
            return "skipped"
        if n == 0:
            mode = "long"        # an object that lost all its cells: any non-empty cell array is too long
        length = n
        if mode == "short" and n > 1 and dkind in FILL and dkind != "referenced":
            length = r.randrange(1, n)
        elif mode == "long":
            length = n + r.randint(1, 2)
        name = f"d{len(obj.data)}_{dkind}"
        if dkind == "float" and mode == "exact" and n and r.random() < 0.15:
            # a data set declared without values yet: it has nothing to lose when elements go
            ent = self.ent(ws, obj)
            ent.add_data({name: {"association": assoc}})
            del ent
            obj.data[name] = {"assoc": assoc, "dkind": dkind, "values": None}
            sim.probe("valueless_data")
            return "ok"
        vals = [value_of(dkind, order[i] if i < n else 999) for i in range(length)]
        ent = self.ent(ws, obj)
        spec = {"values": np_of(dkind, vals, r), "association": assoc}
        if dkind in ("boolean", "referenced", "text", "integer"):
            spec["type"] = dkind
        if dkind == "referenced":
            spec["value_map"] = {1: "a", 2: "b", 3: "c"}
        before = sorted(c.name for c in ent.children if hasattr(c, "values"))
        try:
            ent.add_data({name: spec})
            raised = None
        except Exception as err:  # pylint: disable=broad-except
            raised = type(err).__name__
        after = sorted(c.name for c in ent.children if hasattr(c, "values"))
        del ent
        if length > n:
            if raised is None:
                raise Violation("C07", "long_values_accepted", f"add_data accepted {length} {dkind} values for {n} {assoc.lower()} elements", {"op": "add_data", "data": dkind})
            if after != before:
                raise Violation("C07", "refusal_side_effect", f"refused add_data left children {set(after) ^ set(before)}", {"op": "add_data", "data": dkind})
            sim.probe("long_refused")
            return "refused"
        if raised is not None:
            return "raised:" + raised
        fill = FILL.get(dkind, "")
        obj.data[name] = {"assoc": assoc, "dkind": dkind, "values": {t: (vals[i] if i < length else fill) for i, t in enumerate(order)}}
        if length < n:
            sim.probe("short_padded")
        return "ok"

    def do_cross_assign(self, sim, ws, w, obj, r, cfg, path):
        """The array read from one data set assigned to another of the same association (a caller copying values across):
        the source keeps what it had, whatever the receiving setter does with the array it is handed."""
        srcs = [n for n, d in obj.data.items() if d["dkind"] == "float" and d["values"] is not None and n not in ("tagV", "tagC")]
        if not srcs:
            return "skipped"
        # prefer a source with no-data entries (a padded one)
        gaps = [n for n in srcs if any(v == "nan" for v in obj.data[n]["values"].values())]
        src = (gaps or srcs)[r.randrange(len(gaps or srcs))]
        dsts = [n for n, d in obj.data.items() if d["dkind"] in ("integer", "float") and d["assoc"] == obj.data[src]["assoc"] and n != src and n not in ("tagV", "tagC")
                and d["values"] is not None]
        if not dsts:
            return "skipped"
        ints = [n for n in dsts if obj.data[n]["dkind"] == "integer"]
        dst = (ints or dsts)[r.randrange(len(ints or dsts))]
        order = obj.vtags if obj.data[src]["assoc"] == "VERTEX" else obj.ctags
        ent = self.ent(ws, obj)
        s_ent, d_ent = ent.get_data(src)[0], ent.get_data(dst)[0]
        try:
            d_ent.values = s_ent.values
            raised = None
        except Exception as err:  # pylint: disable=broad-except
            raised = type(err).__name__
        del s_ent, d_ent, ent
        sim.probe("cross_assign" + ("_with_gaps" if gaps else ""))
        if raised is not None:
            return "refused:" + raised
        kind = obj.data[dst]["dkind"]
        obj.data[dst]["values"] = {t: (FILL[kind] if obj.data[src]["values"][t] == "nan" else (int(obj.data[src]["values"][t]) if kind == "integer" else obj.data[src]["values"][t]))
                                   for t in order}
        return "ok"

    def do_set_values(self, sim, ws, w, obj, r, cfg, path):
        names = [n for n in obj.data if n not in ("tagV", "tagC")]
        if not names:
            return "skipped"
        name = names[r.randrange(len(names))]
        d = obj.data[name]
        order = obj.vtags if d["assoc"] == "VERTEX" else obj.ctags
        n = len(order)
        if n == 0:
            return "skipped"
        mode = r.choices(["exact", "short", "long"], [6, 2, 2])[0]
        length = n
        if mode == "short" and n > 1 and d["dkind"] in ("float", "integer", "boolean", "text"):
            length = r.randrange(1, n)
        elif mode == "long":
            length = n + 1
        shift = r.randrange(1, 50)
        vals = [value_of(d["dkind"], (order[i] if i < n else 7) + (shift if d["dkind"] not in ("boolean",) else 1)) for i in range(length)]
        ent = self.ent(ws, obj)
        data = ent.get_data(name)[0]
        try:
            data.values = np_of(d["dkind"], vals, r)
            raised = None
        except Exception as err:  # pylint: disable=broad-except
            raised = type(err).__name__
        del data, ent
        if length > n:
            if raised is None:
                raise Violation("C07", "long_values_accepted", f"values setter accepted {length} values for {n} elements", {"op": "set_values", "data": d["dkind"]})
            sim.probe("long_refused")
            return "refused"
        if raised is not None:
            return "raised:" + raised
        fill = FILL.get(d["dkind"], "")
        d["values"] = {t: (vals[i] if i < length else fill) for i, t in enumerate(order)}
        if length < n:
            sim.probe("short_padded")
        return "ok"

    def do_rm_vertices(self, sim, ws, w, obj, r, cfg, path):
        n = len(obj.vtags)
        if n <= 1:
            return "skipped"
        used = {t for c in obj.cells.values() for t in c}
        style = r.choice(["one", "few", "unsorted", "repeated", "unused_only", "all_but_one", "first_last"])
        if style == "one":
            idx = [r.randrange(n)]
        elif style == "few":
            idx = sorted(r.sample(range(n), min(n - 1, r.randint(1, 3))))
        elif style == "unsorted":
            idx = r.sample(range(n), min(n - 1, r.randint(2, 3)))
            sim.probe("rm_vertices_unsorted")
        elif style == "repeated":
            k = r.randrange(n)
            idx = [k, k] + ([r.randrange(n)] if n > 2 and r.random() < 0.5 else [])
            if len(set(idx)) >= n:
                idx = [k, k]
            sim.probe("rm_vertices_repeated_index")
        elif style == "unused_only":
            idx = [i for i, t in enumerate(obj.vtags) if t not in used][:2]
            if not idx or obj.cls == "Points":
                return "skipped"
            sim.probe("rm_vertices_unused_only")
        elif style == "all_but_one":
            idx = list(range(1, n))
            sim.probe("rm_all_but_one")
        else:
            idx = [0, n - 1] if n > 2 else [0]
        gone = {obj.vtags[i] for i in set(idx)}
        if obj.ctags and all(any(t in gone for t in obj.cells[ct]) for ct in obj.ctags):
            if style != "all_but_one":
                return "skipped"    # would leave an object without cells
            sim.probe("no_cells_left")     # "all but one" vertices removed: every cell goes with them (n_cells = 0 from here on)
        as_list = r.random() < 0.5
        ent = self.ent(ws, obj)
        try:
            ent.remove_vertices(idx if as_list else np.array(idx), clear_cache=cfg.get("clear_cache", False))
            raised = None
        except Exception as err:  # pylint: disable=broad-except
            raised = f"{type(err).__name__}: {str(err)[:60]}"
        del ent
        if raised is not None:
            # an operation that fails leaves geometry and data mutually consistent: the model is unchanged, check() judges
            sim.probe("rm_vertices_raised")
            self.failed = ("rm_vertices", raised)
            return "raised:" + raised.split(":")[0]
        obj.vtags = [t for t in obj.vtags if t not in gone]
        dead_cells = {ct for ct, c in obj.cells.items() if any(t in gone for t in c)}
        obj.ctags = [ct for ct in obj.ctags if ct not in dead_cells]
        return "ok"

    def do_rm_cells(self, sim, ws, w, obj, r, cfg, path):
        n = len(obj.ctags)
        if obj.cls == "Points" or n == 0:
            return "skipped"
        if n < 2:
            return "skipped"
        k = min(n - 1, r.randint(1, 2))      # never all cells (the quantifier goes down to all-but-one)
        idx = r.sample(range(n), k)
        if r.random() < 0.3:
            idx = idx + idx[:1]
        gone = {obj.ctags[i] for i in set(idx)}
        ent = self.ent(ws, obj)
        try:
            ent.remove_cells(idx if r.random() < 0.5 else np.array(idx), clear_cache=cfg.get("clear_cache", False))
            raised = None
        except Exception as err:  # pylint: disable=broad-except
            raised = type(err).__name__
        del ent
        if raised is not None:
            return "raised:" + raised
        obj.ctags = [ct for ct in obj.ctags if ct not in gone]
        sim.probe("rm_cells")
        return "ok"

    def do_masked_copy(self, sim, ws, w, obj, r, cfg, path):
        if len(w["objs"]) >= 3:
            return "skipped"
        n = len(obj.vtags)
        if n < 2:
            return "skipped"
        mask = [r.random() < 0.6 for _ in range(n)]
        if not any(mask):
            mask[0] = True
        # keep the geometry legal: a surviving cell needs all its vertices
        keep_v = {t for t, m in zip(obj.vtags, mask) if m}
        keep_c = [ct for ct in obj.ctags if all(t in keep_v for t in obj.cells[ct])]
        ent = self.ent(ws, obj)
        try:
            new = ent.copy(mask=np.array(mask), clear_cache=cfg.get("clear_cache", False))
            raised = None
        except Exception as err:  # pylint: disable=broad-except
            raised = type(err).__name__
            new = None
        del ent
        if raised is not None or new is None:
            return "raised:" + str(raised)
        copy = Obj(new.uid, obj.cls)
        copy.vtags = [t for t in obj.vtags if t in keep_v]
        copy.coords = dict(obj.coords)
        copy.ctags = keep_c
        copy.cells = dict(obj.cells)
        copy.data = {n_: {"assoc": d["assoc"], "dkind": d["dkind"], "values": dict(d["values"]) if d["values"] is not None else None} for n_, d in obj.data.items()}
        del new
        w["objs"].append(copy)
        sim.probe("masked_copy")
        return "ok"

    def do_data_masked_copy(self, sim, ws, w, obj, r, cfg, path):
        """data.copy(mask=...) onto the same object: the copy holds the kept values and no-data elsewhere; the source keeps all."""
        names = [n for n, d in obj.data.items() if d["dkind"] in FILL and d["dkind"] not in ("text",) and n not in ("tagV", "tagC") and d["values"] is not None]
        if not names:
            return "skipped"
        name = names[r.randrange(len(names))]
        d = obj.data[name]
        order = obj.vtags if d["assoc"] == "VERTEX" else obj.ctags
        if len(order) < 2:
            return "skipped"
        mask = [r.random() < 0.6 for _ in order]
        if all(mask):
            mask[r.randrange(len(mask))] = False
        new_name = f"cp{len(obj.data)}_{d['dkind']}"
        ent = self.ent(ws, obj)
        src = [c for c in ent.children if c.name == name and hasattr(c, "values")]
        if not src:
            del ent
            return "skipped"
        try:
            new = src[0].copy(mask=np.array(mask), name=new_name, clear_cache=cfg.get("clear_cache", False))
            raised = None
        except Exception as err:  # pylint: disable=broad-except
            raised = type(err).__name__
            new = None
        del ent, src
        if raised is not None or new is None:
            return "raised:" + str(raised)
        del new
        fill = FILL.get(d["dkind"], "")
        obj.data[new_name] = {"assoc": d["assoc"], "dkind": d["dkind"], "values": {t: (d["values"][t] if m else fill) for t, m in zip(order, mask)}}
        sim.probe("data_masked_copy")
        return "ok"

    def do_bad_call(self, sim, ws, w, obj, r, cfg, path):
        """Calls that must be refused and change nothing."""
        ent = self.ent(ws, obj)
        n = len(obj.vtags)
        which = r.choice(["index_high", "vertices_fewer", "vertices_shape", "cells_fewer"])
        try:
            if which == "index_high":
                ent.remove_vertices([n + 3])
            elif which == "vertices_fewer":
                ent.vertices = ent.vertices[: max(n - 1, 0)]
                if n <= 1:
                    raise ValueError("nothing to shorten")
            elif which == "vertices_shape":
                ent.vertices = np.zeros((n, 2))
            else:
                if obj.cls == "Points" or len(obj.ctags) < 1:
                    raise ValueError("no cells")
                ent.cells = ent.cells[:-1]
            raised = False
        except Exception:  # pylint: disable=broad-except
            raised = True
        del ent
        if not raised:
            raise Violation("C07", "bad_call_accepted", f"{which} on {obj.cls} was accepted", {"call": which, "cls": obj.cls})
        sim.probe("bad_index_refused")
        return "refused"

    def do_gc(self, sim, ws, w, obj, r, cfg, path):
        sim.collect("event")
        return "ok"

    def do_switch(self, sim, ws, w, obj, r, cfg, path):
        return "ok"

    def do_reopen(self, sim, ws, w, obj, r, cfg, path, same=False):
        from geoh5py import Workspace

        ws.close()
        if same:
            ws.open()
        else:
            ws = Workspace(path, mode="r+")
        sim.probe("reopen")
        return ws, "ok"

    def do_reopen_same(self, sim, ws, w, obj, r, cfg, path):
        return self.do_reopen(sim, ws, w, obj, r, cfg, path, same=True)
