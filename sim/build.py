"""Builders: JSON-able argument records for entity creation, turned into real kwargs at run time.

All numeric pools are exactly representable in the stored type (float32 where the format
stores float32) so that equality oracles can be exact (DESIGN 4.1).
"""

from __future__ import annotations

import random

import numpy as np

NAMES = ["alpha", "beta", "gamma", "Δelta", "eps ilon", "zêta", "eta_7", "θ", "iota-9", "kap.pa", "数据", "mu", "pgA", "pgB"]   # (entities may be named like property groups)
TEXTS = ["", "a", "bb", "çé", "日本", "x y", "LONG" * 5, "0", "nan", "{not-a-uuid}"]

GROUP_CLASSES = ["ContainerGroup", "SimPEGGroup", "UIJsonGroup", "NoTypeGroup", "DrillholeGroup"]
OBJECT_CLASSES = ["Points", "Curve", "Surface", "Grid2D", "BlockModel", "Octree", "DrapeModel", "Drillhole", "Label", "NoTypeObject"]
OBJECT_WEIGHTS = [5, 4, 4, 2, 2, 2, 2, 3, 1, 1]
DATA_KINDS = ["float", "integer", "boolean", "referenced", "text", "textarr"]


def fval(rng: random.Random) -> float:
    return rng.randrange(-256, 257) / 4.0


def farr(rng: random.Random, n: int, nan_rate: float = 0.15) -> list:
    return [("nan" if rng.random() < nan_rate else fval(rng)) for _ in range(n)]


def to_np_float(values: list) -> np.ndarray:
    return np.array([np.nan if v == "nan" else v for v in values], dtype=float)


def name(rng: random.Random) -> str:
    base = rng.choice(NAMES)
    x = rng.random()
    if x < 0.02:
        return "GEOSCIENCE"      # an entity named like the project node of the file
    return base if x < 0.5 else f"{base}{rng.randrange(100)}"


def gen_object_args(rng: random.Random, cls: str) -> dict:
    """JSON-able creation arguments for an object class."""
    args: dict = {"cls": cls, "name": name(rng)}
    if cls == "Points":
        n = rng.choice([1, 2, 3, 5, 8])
        args["vertices"] = [[fval(rng), fval(rng), fval(rng)] for _ in range(n)]
    elif cls == "Curve":
        n = rng.choice([2, 3, 4, 6])
        args["vertices"] = [[fval(rng), fval(rng), fval(rng)] for _ in range(n)]
        mode = rng.choice(["default", "cells", "parts"])
        if mode == "cells":
            m = rng.randint(1, n)
            args["cells"] = [[rng.randrange(n), rng.randrange(n)] for _ in range(m)]
        elif mode == "parts":
            args["parts"] = sorted(rng.randrange(2) for _ in range(n))
    elif cls == "Surface":
        n = rng.choice([3, 4, 5, 7])
        args["vertices"] = [[fval(rng), fval(rng), fval(rng)] for _ in range(n)]
        m = rng.randint(1, 4)
        args["cells"] = [rng.sample(range(n), 3) for _ in range(m)]
    elif cls == "Grid2D":
        args.update(
            origin=[fval(rng), fval(rng), fval(rng)], u_cell_size=rng.choice([0.5, 1.0, 2.5]),
            v_cell_size=rng.choice([0.25, 1.0, 4.0]), u_count=rng.randint(1, 4), v_count=rng.randint(1, 3),
            rotation=rng.choice([0.0, 30.0, -45.0, 90.0]), dip=rng.choice([0.0, 15.0, 45.0]),
        )
    elif cls == "BlockModel":
        def delims():
            k = rng.randint(1, 3)
            out = [0.0]
            for _ in range(k):
                out.append(out[-1] + rng.choice([0.5, 1.0, 2.0]))
            return out
        args.update(origin=[fval(rng), fval(rng), fval(rng)], u_cell_delimiters=delims(), v_cell_delimiters=delims(),
                    z_cell_delimiters=delims(), rotation=rng.choice([0.0, 20.0, -60.0]))
    elif cls == "Octree":
        args.update(origin=[fval(rng), fval(rng), fval(rng)], u_count=rng.choice([1, 2, 4]), v_count=rng.choice([1, 2, 4]),
                    w_count=rng.choice([1, 2, 4]), u_cell_size=rng.choice([0.5, 1.0]), v_cell_size=rng.choice([1.0, 2.0]),
                    w_cell_size=rng.choice([0.25, 1.0]), rotation=rng.choice([0.0, 30.0]))
    elif cls == "DrapeModel":
        n_prisms = rng.randint(1, 3)
        layers, prisms, first = [], [], 0
        for i in range(n_prisms):
            count = rng.randint(1, 2)
            top = fval(rng)
            prisms.append([fval(rng), fval(rng), top, first, count])
            for k in range(count):
                layers.append([i, k, top - (k + 1) * 0.5])
            first += count
        args.update(prisms=prisms, layers=layers)
    elif cls == "Drillhole":
        n = rng.randint(1, 3)
        depth, surveys = rng.choice([0.0, 2.0]), []
        for _ in range(n):
            surveys.append([depth, rng.choice([0.0, 45.0, 270.0]), rng.choice([-90.0, -60.0, -45.0])])
            depth += rng.choice([1.0, 5.0, 10.0])
        args.update(collar=[fval(rng), fval(rng), fval(rng)], surveys=surveys)
        if rng.random() < 0.4:
            args["end_of_hole"] = depth + rng.choice([5.0, 20.5])      # (the hole goes on below its last station; given after the surveys)
    return args


def object_kwargs(args: dict) -> dict:
    """Real keyword arguments from the JSON-able record."""
    kw = {"name": args["name"]}
    for key, val in args.items():
        if key in ("cls", "name"):
            continue
        if key == "vertices":
            kw[key] = np.array(val, dtype=float).reshape(-1, 3)
        elif key == "cells":
            kw[key] = np.array(val, dtype="uint32")
        elif key == "parts":
            kw[key] = np.array(val, dtype="int32")
        elif key in ("surveys", "prisms", "layers"):
            kw[key] = np.array(val, dtype=float)
        elif key.endswith("_delimiters"):
            kw[key] = np.array(val, dtype=float)
        elif key in ("origin", "collar"):
            kw[key] = list(val)
        else:
            kw[key] = val
    return kw


def gen_values(rng: random.Random, kind: str, n: int) -> list:
    if kind == "float":
        return farr(rng, n)
    if kind == "integer":
        return [rng.randrange(-1000, 1000) for _ in range(n)]
    if kind == "boolean":
        return [rng.randrange(2) for _ in range(n)]
    if kind == "referenced":
        return [rng.randrange(0, 4) for _ in range(n)]
    if kind in ("textarr",):
        return [rng.choice(TEXTS[1:]) for _ in range(n)]
    if kind == "text":
        return [rng.choice(TEXTS[1:])]
    raise ValueError(kind)


VALUE_MAP = {1: "one", 2: "deux", 3: "三"}


def np_values(kind: str, values: list):
    if kind == "float":
        return to_np_float(values)
    if kind == "integer":
        return np.array(values, dtype="int32")
    if kind == "boolean":
        return np.array(values, dtype=bool)
    if kind == "referenced":
        return np.array(values, dtype="uint32")
    if kind == "textarr":
        return np.array(values, dtype=str)
    if kind == "text":
        return values[0]
    raise ValueError(kind)


def data_spec(kind: str, values: list, assoc: str) -> dict:
    spec = {"values": np_values(kind, values), "association": assoc}
    if kind == "referenced":
        spec["type"] = "referenced"
        spec["value_map"] = dict(VALUE_MAP)
    elif kind == "boolean":
        spec["type"] = "boolean"
    elif kind in ("text", "textarr"):
        spec["type"] = "text"
    elif kind == "integer":
        spec["type"] = "integer"
    return spec


def pad(kind: str, values: list, n: int) -> list:
    """Expected stored values when fewer than n values are assigned."""
    if len(values) >= n:
        return list(values)
    fill = {"float": "nan", "integer": -2147483648, "boolean": 0, "referenced": 0, "textarr": "", "text": ""}[kind]
    return list(values) + [fill] * (n - len(values))
