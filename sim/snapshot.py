"""
LIVE / REOPEN view: canonical records of a workspace obtained through public getters only.

Never calls the sweeping listings (Workspace.groups/objects/data/...), which write to the
file; walks from `workspace.root.children`.  Record schema is shared with rawgeoh5.decode_tree
after `normalise_raw` (see compare.py).
"""

from __future__ import annotations

import enum
import uuid

import numpy as np

from .rawgeoh5 import canon as _raw_canon

FLAGS = ("allow_delete", "allow_move", "allow_rename", "public", "visible", "partially_hidden")
ARRAY_FIELDS = (
    "vertices", "cells", "octree_cells", "prisms", "layers", "surveys", "trace",
    "u_cell_delimiters", "v_cell_delimiters", "z_cell_delimiters",
)
SKIP_ATTRS = {"ID", "Name", "PropertyGroups", "Allow delete", "Allow move", "Allow rename", "Public",
              "Visible", "Partially hidden", "Attributes", "Attributes Jsons", "Property Groups IDs",
              "Concatenated object IDs", "Clipping IDs"}


def ustr(uid) -> str:
    if isinstance(uid, uuid.UUID):
        return "{" + str(uid) + "}"
    if isinstance(uid, bytes):
        uid = uid.decode()
    return str(uid)


def canon(value):
    if isinstance(value, uuid.UUID):
        return ustr(value)
    if isinstance(value, enum.Enum):
        return value.name.upper()
    if isinstance(value, np.ndarray) and value.dtype == object:
        return [canon(v) for v in value.tolist()]
    if isinstance(value, (list, tuple)):
        return [canon(v) for v in value]
    if isinstance(value, dict):
        return {str(k): canon(v) for k, v in value.items()}
    return _raw_canon(value)


def kind_of(entity) -> str:
    from geoh5py.data import Data
    from geoh5py.groups import Group
    from geoh5py.objects import ObjectBase

    if isinstance(entity, Data):
        return "data"
    if isinstance(entity, ObjectBase):
        return "object"
    if isinstance(entity, Group):
        return "group"
    return "other"


def values_of(entity):
    """Canonical data values through the public getter."""
    from geoh5py.data import CommentsData, FilenameData

    if isinstance(entity, FilenameData):
        val = entity.values
        return {"file_name": entity.file_name, "blob": (val.hex() if isinstance(val, (bytes, bytearray)) else canon(val))}
    val = entity.values
    if isinstance(entity, CommentsData):
        return canon(val)
    if isinstance(val, str):
        return [val]
    if isinstance(val, np.ndarray) and val.ndim == 0:
        return [canon(val.item())]
    return canon(val)


def children_of(entity) -> list:
    """Children through the public API (concatenated objects load theirs lazily by name)."""
    from geoh5py.groups import PropertyGroup
    from geoh5py.shared.concatenation import ConcatenatedObject

    if isinstance(entity, ConcatenatedObject):
        for name in entity.get_data_list():
            entity.get_data(name)
    return [c for c in getattr(entity, "children", []) if not isinstance(c, PropertyGroup)]


def record(entity, with_arrays: bool = True) -> dict:
    from geoh5py.data import Data
    from geoh5py.groups import PropertyGroup

    kind = kind_of(entity)
    parent = entity.parent
    rec = {
        "uid": ustr(entity.uid),
        "kind": kind,
        "cls": type(entity).__name__,
        "type_uid": ustr(entity.entity_type.uid),
        "parent": ustr(parent.uid) if parent is not None else None,
        "name": entity.name,
        "flags": {f: canon(getattr(entity, f)) for f in FLAGS},
        "attrs": {},
        "arrays": {},
        "metadata": None,
        "pgs": {},
        "children": [],
    }
    for h5name, pyname in entity.attribute_map.items():
        if h5name in SKIP_ATTRS or ":" in pyname:
            continue
        try:
            val = getattr(entity, pyname)
        except AttributeError:
            continue
        if val is None:
            continue
        rec["attrs"][h5name] = canon(val)
    if kind == "data":
        rec["values"] = values_of(entity)
        rec["primitive"] = entity.entity_type.primitive_type.name if entity.entity_type.primitive_type else None
    else:
        if with_arrays:
            for field in ARRAY_FIELDS:
                if isinstance(getattr(type(entity), field, None), property):
                    val = getattr(entity, field)
                    if val is not None:
                        rec["arrays"][field] = canon(val)
        rec["metadata"] = canon(entity.metadata)
        if isinstance(getattr(type(entity), "options", None), property):
            rec["arrays"]["options"] = canon(entity.options)
        rec["children"] = sorted(ustr(child.uid) for child in children_of(entity))
        pgs = getattr(entity, "property_groups", None)
        # (an object's list of children holds its property groups too: exactly those)
        pg_kids = sorted(ustr(c.uid) for c in getattr(entity, "children", []) if isinstance(c, PropertyGroup))
        if kind == "object" and not type(entity).__name__.startswith("Concatenated") and pg_kids != sorted(ustr(p.uid) for p in (pgs or [])):
            rec["pg_children"] = pg_kids
        if pgs:
            for pg in pgs:
                rec["pgs"][ustr(pg.uid)] = {
                    "name": pg.name,
                    "assoc": pg.association.name.upper(),
                    "type": pg.property_group_type,
                    "props": [ustr(p) for p in (pg.properties or [])],
                }
    return rec


def snapshot(ws, with_arrays: bool = True) -> dict:
    """uid -> record for every entity reachable from ws.root through `children`."""
    from geoh5py.groups import PropertyGroup

    out = {}
    root = ws.root
    stack = [root]
    while stack:
        ent = stack.pop()
        key = ustr(ent.uid)
        if key in out:
            out[key]["duplicate_in_tree"] = True
            continue
        out[key] = record(ent, with_arrays)
        stack.extend(children_of(ent))
    return out


def subtree(ws, entity, with_arrays: bool = True) -> dict:
    from geoh5py.groups import PropertyGroup

    out = {}
    stack = [entity]
    while stack:
        ent = stack.pop()
        out[ustr(ent.uid)] = record(ent, with_arrays)
        stack.extend(children_of(ent))
    return out
