"""Oracles plugged into the world machine.  Each raises kernel.Violation(prop, tag, detail, discr)."""

from __future__ import annotations

from . import compare, rawgeoh5, snapshot
from .kernel import Violation
from .snapshot import ustr


class Oracle:
    prop = "?"

    def before(self, world, op): ...
    def after(self, world, op, outcome): ...
    def after_event(self, world, name): ...
    def before_close(self, world, h): ...
    def at_close(self, world, h): ...
    def after_reopen(self, world, h): ...


def _raw_tree(path_or_file):
    raw = rawgeoh5.read(path_or_file)
    return raw, {k: compare.normalise_raw(v) for k, v in rawgeoh5.decode_tree(raw).items()}


# attrs that the concatenated JSON encoding stores differently or that the model adopts loosely
RAW_SKIP_ATTRS = ("Clipping IDs",)


class ModelOracle(Oracle):
    """C01: MODEL == LIVE before close, MODEL == RAW(reachable) on the closed file, MODEL == REOPEN."""

    prop = "C01"

    def __init__(self, prop="C01"):
        self.prop = prop

    def _cmp(self, world, h, other, label, tag, fields=None):
        model = world.h[h].model
        world.sim.oracle(tag)
        diffs = compare.diff_trees(model.recs, other, "MODEL", label, fields=fields, skip_attrs=RAW_SKIP_ATTRS)
        if not diffs and label == "LIVE":
            stale = sorted(u for u, r in other.items() if "pg_children" in r)
            if stale:
                raise Violation(self.prop, "state_differs", f"LIVE: {stale[0]} lists property groups {other[stale[0]]['pg_children']} among its children, its property "
                                f"groups are {sorted(other[stale[0]].get('pgs', {}))}", {"field": "children_pgs", "kind": "object", "cls": other[stale[0]].get("cls"), "view": "LIVE"})
        if diffs:
            first = diffs[0]
            kind = "?"
            uid = first.split(" ")[0]
            rec = model.recs.get(uid) or other.get(uid) or {}
            mrec = model.recs.get(uid) or {}
            discr = {"field": _field(first), "kind": rec.get("kind"), "cls": mrec.get("cls") or rec.get("cls"), "view": label}
            if "but not in" in first:
                discr["field"] = "missing_in_" + first.rsplit(" ", 1)[1]
            root = getattr(model, "removed_root", {}).get(uid, uid)
            if getattr(model, "removed_entry", {}).get(uid) == "parent" and (uid in model.recs or root in model.recs):
                # the identifier of an entity removed through its parent has been given to a new entity (a cross-workspace
                # copy keeps identifiers, a creation may name one): the new entity meets the node that removal left in the file -- and,
                # linked under it, the nodes of the removed entity's descendants
                discr["reuses_uid_removed_by"] = "parent"
            raise Violation(self.prop, "state_differs", f"{label}: {first} (+{len(diffs) - 1} more)", discr)

    def _snap(self, world, h, label):
        try:
            return snapshot.snapshot(world.h[h].ws)
        except Exception as err:  # a public getter raised while the tree was read
            import traceback

            where = traceback.extract_tb(err.__traceback__)[-1]
            raise Violation(self.prop, "getter_raises", f"{label}: reading the tree through public getters raised "
                            f"{type(err).__name__}: {str(err)[:120]} at {where.name}",
                            {"exc": type(err).__name__, "at": where.name, "view": label}) from None

    def before_close(self, world, h):
        self._cmp(world, h, self._snap(world, h, "LIVE"), "LIVE", "model_live")

    def at_close(self, world, h):
        raw, tree = _raw_tree(world.h[h].path)
        self._cmp(world, h, tree, "RAW", "model_raw",
                  fields=("kind", "type_uid", "parent", "name", "flags", "values", "metadata", "pgs", "children", "attrs", "arrays"))

    def after_reopen(self, world, h):
        self._cmp(world, h, self._snap(world, h, "REOPEN"), "REOPEN", "model_reopen")


class StructOracle(Oracle):
    """C02: every closed file passes the independent structural validator."""

    prop = "C02"

    def at_close(self, world, h):
        raw = rawgeoh5.read(world.h[h].path)
        world.sim.oracle("validate")
        errs = rawgeoh5.validate(raw, concat=False)
        if errs:
            # errors about a node that is itself unreachable are consequences of the orphan (R8);
            # report root causes: first the errors on reachable nodes, else the orphan itself
            orphans = {d.split(" ")[0] for r, d in errs if r == "R8"}
            primary = [(r, d) for r, d in errs if r != "R8" and not any(d.startswith(o) for o in orphans)]
            rule, detail = primary[0] if primary else [e for e in errs if e[0] == "R8"][0]
            model = world.h[h].model
            discr = {"rule": rule}
            # discriminate orphan nodes left by a removal from other unreachable nodes
            if rule == "R8":
                uid = detail.split(" ")[0].split("/")[1]
                z = model.zombies.get(uid)
                discr["removed_by"] = z.get("entry") if z else "never_removed"
                discr["kind"] = detail.split("/")[0]
            else:
                # a node that became reachable again because a new entity took the identifier of one removed through its parent:
                # what is wrong with that node dates from its time as an orphan (e.g. its type went with the last live user)
                parts = detail.split(":")[0].split("/")
                if len(parts) >= 2 and getattr(model, "removed_entry", {}).get(parts[1]) == "parent":
                    discr["reuses_uid_removed_by"] = "parent"
            raise Violation("C02", "struct_" + rule, f"{detail} (+{len(errs) - 1} more)", discr)


class RemovalOracle(Oracle):
    """C05: removed identifiers are absent from the closed file."""

    prop = "C05"

    def at_close(self, world, h):
        raw = rawgeoh5.read(world.h[h].path)
        model = world.h[h].model
        world.sim.oracle("raw_absence")
        gone = {u for u in model.removed if u not in model.all_ids()}
        if not gone or raw.get("project") is None:
            return
        for kind in rawgeoh5.KINDS:
            for name, node in raw["flat"][kind].items():
                if name in gone:
                    z = model.zombies.get(name, {})
                    raise Violation("C05", "file_keeps_removed", f"flat container {kind} still holds removed {name}",
                                    {"where": "flat", "kind": kind, "entry": z.get("entry")})
                if "addr" not in node:
                    continue
                for ckind, links in node["children"].items():
                    for cname in links:
                        if cname in gone:
                            raise Violation("C05", "file_keeps_removed", f"{kind}/{name} still links removed child {cname}",
                                            {"where": "child_link", "kind": ckind})
                for pg_name, pg in (node["pgs"] or {}).items():
                    if pg_name in gone:
                        raise Violation("C05", "file_keeps_removed", f"{kind}/{name} keeps removed property group {pg_name}", {"where": "pg"})
                    props = pg.get("Properties") or []
                    if isinstance(props, str):
                        props = [props]
                    for prop in props:
                        if prop in gone:
                            raise Violation("C05", "file_keeps_removed", f"property group {pg_name} of {name} lists removed data {prop}",
                                            {"where": "pg_property"})
                if node.get("concat"):
                    recs = node["concat"]["attributes"] if isinstance(node["concat"]["attributes"], list) else []
                    for rec in recs:
                        if isinstance(rec, dict) and rec.get("ID") in gone:
                            raise Violation("C05", "file_keeps_removed", f"concatenated record of removed {rec.get('ID')}", {"where": "concat_record"})


class UidOracle(Oracle):
    """C06: identifiers unique (LIVE after every event, RAW at close); copy identifier rules; one type per class."""

    prop = "C06"

    def after(self, world, op, outcome):
        if op["k"] not in ("mk_group", "mk_object", "add_data", "copy", "copy_extent", "mk_dup", "pg_add", "pg_new", "add_comment", "add_file", "move", "move_data"):
            return
        for h, handle in world.h.items():
            if handle.ws is None:
                continue
            world.sim.oracle("uid_live")
            seen: dict[str, str] = {}
            class_types: dict[str, set] = {}
            type_objs: dict[str, dict] = {}
            stack = [handle.ws.root]
            while stack:
                ent = stack.pop()
                key = ustr(ent.uid)
                type_objs.setdefault(ustr(ent.entity_type.uid), {})[id(ent.entity_type)] = "tree"
                what = f"{snapshot.kind_of(ent)} {ent.name!r}"
                if snapshot.kind_of(ent) in ("group", "object"):
                    # all entities of one object or group class share a single type
                    class_types.setdefault(type(ent).__name__, set()).add(ustr(ent.entity_type.uid))
                if key in seen:
                    raise Violation("C06", "uid_shared_live", f"{key} used by {seen[key]} and {what}", {"a": seen[key].split(' ')[0], "b": what.split(' ')[0]})
                seen[key] = what
                for pg in (getattr(ent, "property_groups", None) or []):
                    pkey = ustr(pg.uid)
                    if pkey in seen:
                        raise Violation("C06", "uid_shared_live", f"{pkey} used by {seen[pkey]} and property group {pg.name!r}", {"a": seen[pkey].split(' ')[0], "b": "pg"})
                    seen[pkey] = f"pg {pg.name!r}"
                stack.extend(snapshot.children_of(ent))
            split = {c: sorted(t) for c, t in class_types.items() if len(t) > 1}
            if split:
                cls = sorted(split)[0]
                raise Violation("C06", "class_has_two_types", f"entities of class {cls} carry {len(split[cls])} different types: {split[cls]}", {"cls": cls})
            # no two live types share an identifier: neither in the registry, nor among the type objects that entities of this
            # workspace carry (those in the tree, and those the caller still holds after their removal)
            for (hh, _), held in sorted(world.slots.items(), key=lambda kv: kv[0]):
                if hh == h and getattr(held, "entity_type", None) is not None:
                    type_objs.setdefault(ustr(held.entity_type.uid), {}).setdefault(id(held.entity_type), "held")
            twice = sorted(u for u, objs in type_objs.items() if len(objs) > 1)
            if twice:
                raise Violation("C06", "type_uid_shared", f"type identifier {twice[0]} is carried by {len(type_objs[twice[0]])} distinct live type objects "
                                f"({sorted(type_objs[twice[0]].values())})", {"via": "held" if "held" in type_objs[twice[0]].values() else "tree"})
            type_ids = [ustr(t.uid) for t in handle.ws.types]
            dup = sorted({t for t in type_ids if type_ids.count(t) > 1})
            if dup:
                raise Violation("C06", "type_uid_shared", f"type identifier {dup[0]} is carried by {type_ids.count(dup[0])} live types", {})
        if op["k"] in ("copy", "copy_extent") and outcome == "ok" and world.copies and world.copies[-1].get("judged_uid") is None:
            world.copies[-1]["judged_uid"] = True
            self.copy_rules(world, world.copies[-1])

    def copy_rules(self, world, info):
        world.sim.oracle("copy_uid_rules")
        src_model = world.h[info["h"]].model
        new = info["new"]
        new_ids = set(new) | {p for r in new.values() for p in r.get("pgs", {})}
        if info["h"] == info["dh"]:
            clash = new_ids & info["in_use"]
            if clash:
                raise Violation("C06", "copy_uid_in_use", f"same-workspace copy got identifiers already in use: {sorted(clash)[:2]}", {"ws": "same"})
            prev = new_ids & (src_model.removed - set(src_model.recs))
            # identifiers of removed entities are free again; not judged
        else:
            clash = new_ids & info["in_use"]
            if clash:
                raise Violation("C06", "copy_uid_in_use", f"cross-workspace copy got identifiers already in use: {sorted(clash)[:2]}", {"ws": "other"})
            # originals' identifiers are kept whenever free in the target
            root_src, root_dst = info["src"], info["dst"]
            dz = world.h[info["dh"]].model.zombies.get(root_src)
            if root_src not in info["in_use"] and root_dst != root_src and not (dz and not dz.get("collected")):
                # (the bookkeeping of what has been collected is the harness's estimate; the registry itself is asked whether a
                #  removed entity with that identifier is in fact still alive -- then the identifier was not free)
                import uuid as _uuid

                still = world.h[info["dh"]].ws.get_entity(_uuid.UUID(root_src.strip("{}")))[0] if dz else None
                alive = still is not None
                del still
                if getattr(world.h[info["dh"]].model, "removed_entry", {}).get(root_src) == "parent":
                    # removed through its parent: such an entity stays registered until it is collected, and with collections placed
                    # inside calls the harness cannot tell whether that happened before the copy routine asked for the identifier
                    world.sim.probe("identifier_of_parent_removed_entity")
                    alive = True
                if not alive:
                    raise Violation("C06", "copy_uid_not_kept", f"identifier {root_src} was free in the target workspace but the copy got {root_dst}",
                                    {"ws": "other", "level": "root"})
                world.sim.probe("removed_entity_still_registered")
            if info["children"]:
                dzombies = world.h[info["dh"]].model.zombies
                pg_ids = {p for u in src_model.subtree(info["src"]) for p in src_model.recs[u].get("pgs", {})}
                for u in sorted(info["src_ids"]):
                    if u in info["in_use"] or u in new_ids:
                        continue
                    if u in dzombies and not dzombies[u].get("collected"):
                        continue   # a removed, not yet collected owner may still hold the identifier
                    if any(not z.get("collected") and u in ((z.get("rec") or {}).get("pgs") or {}) for z in dzombies.values()):
                        continue   # ... and so may the property groups of such an owner
                    if getattr(world.h[info["dh"]].model, "removed_entry", {}).get(u) == "parent":
                        continue   # an entity removed through its parent holds its identifier until collected (not exactly known when)
                    if u in pg_ids or u in src_model.recs:
                        # every copied child / property group keeps its identifier when free
                        copied = u in pg_ids or self._was_copied(src_model, u, info)
                        if copied:
                            raise Violation("C06", "copy_uid_not_kept", f"identifier {u} was free in the target workspace but is not used by the copy",
                                            {"ws": "other", "level": "pg" if u in pg_ids else src_model.recs[u]["kind"]})

    @staticmethod
    def _was_copied(src_model, u, info) -> bool:
        """Children known to be skipped by copies (comments are copied; survey helper data are not) -- conservative."""
        rec = src_model.recs[u]
        return rec["name"] not in ("A-B Cell ID", "Transmitter ID")

    def at_close(self, world, h):
        raw = rawgeoh5.read(world.h[h].path)
        world.sim.oracle("uid_raw")
        orphans = rawgeoh5.unreachable(raw)
        errs = [e for e in rawgeoh5.validate(raw, concat=True) if e[0] == "R9"]
        # a clash with an orphan node left by removal-through-the-parent is that finding's consequence
        errs = [e for e in errs if not any(o.split("/")[1] in e[1] for o in orphans)]
        # ... and so is a clash with the stale node of an entity removed through its parent whose identifier was given to a
        # new entity since (the new entity sits on the old node, property groups included): recorded under C01 / C02 / C05
        stale = {u for u, entry in getattr(world.h[h].model, "removed_entry", {}).items() if entry == "parent"}
        errs = [e for e in errs if not any(u in e[1] for u in stale)]
        if errs:
            raise Violation("C06", "uid_shared_file", errs[0][1], {"rule": "R9"})


class IsolationOracle(Oracle):
    """C09: per-event RAW digest diff must be within what the operation may touch."""

    prop = "C09"

    def __init__(self):
        self.pre = {}
        self.pre_model_ids = {}
        self.pre_parent = {}
        self.deferred_links = set()

    def _dig(self, world):
        out = {}
        for h, handle in world.h.items():
            if handle.ws is not None and handle.ws._geoh5:  # pylint: disable=protected-access
                out[h] = rawgeoh5.digests(rawgeoh5.read(handle.ws.geoh5))
        return out

    def before(self, world, op):
        self.pre = self._dig(world)
        self.pre_recs = {h: {u: (r["parent"], r["type_uid"], r["kind"]) for u, r in handle.model.recs.items()} for h, handle in world.h.items()}
        self.pre_pgs = {h: set(handle.model.pgs()) for h, handle in world.h.items()}

    def after(self, world, op, outcome):
        if op["k"] in ("close_reopen", "reopen_same", "save_as"):
            return   # boundaries are judged in after_reopen against the digests taken before the close
        post = self._dig(world)
        for h in post:
            if h not in self.pre:
                continue
            changed = rawgeoh5.diff_digests(self.pre[h], post[h])
            if changed:
                self.judge(world, h, op, outcome, changed)
        world.sim.oracle("digest_diff")

    def after_event(self, world, name):
        pass

    def judge(self, world, h, op, outcome, changed):
        model = world.h[h].model
        pre = self.pre_recs[h]
        now = {u: (r["parent"], r["type_uid"], r["kind"]) for u, r in model.recs.items()}
        created = set(now) - set(pre)
        removed = set(pre) - set(now)
        ok_op = outcome == "ok" or outcome.startswith("partial:")      # (a removal refused part-way has removed part of its subtree)
        touch: set[str] = set()
        parents: set[str] = set()
        if ok_op:
            for u in created:
                parents.add(now[u][0])
                if getattr(model, "removed_entry", {}).get(u) == "parent":
                    # the new entity took the identifier of one removed through its parent: its node is the one that removal left
                    # in the file (known finding of C02 / C05), so the creation shows as a change of an existing node
                    touch.add(u)
            for u in removed:
                parents.add(pre[u][0])
            for u in set(pre) & set(now):
                if pre[u][0] != now[u][0]:
                    touch.add(u)
                    parents.update((pre[u][0], now[u][0]))
            tgt = getattr(world, "last_target", None)
            if tgt and tgt[0] == h:
                touch.update(tgt[1])
            pg_owner = getattr(world, "last_pg_owner", None)
            if pg_owner and pg_owner[0] == h:
                parents.add(pg_owner[1])
            if op["k"] == "reattach":
                # detach + attach to the same parent: the parent's child link is dropped now and restored by the close
                for u in list(touch):
                    if u in pre:
                        parents.add(pre[u][0])
                        self.deferred_links.add((h, pre[u][0]))
        used_types = {r["type_uid"] for r in model.recs.values()}
        touched_types = {model.recs[u]["type_uid"] for u in touch if u in model.recs and model.recs[u]["kind"] == "data"}
        touched_types |= {pre[u][1] for u in touch | removed if u in pre and pre[u][2] == "data"}
        zombie = set(model.zombies) | model.removed
        concat_groups = {u for u in (touch | parents | created | removed) if (model.recs.get(u) or {}).get("concat_group")}
        for u in (touch | parents | created | removed):
            rec = model.recs.get(u) or (model.zombies.get(u) or {}).get("rec") or {}
            par = rec.get("parent")
            if rec.get("concat"):
                parents.add(par)
                grand = (model.recs.get(par) or (model.zombies.get(par) or {}).get("rec") or {})
                if grand.get("concat_group"):
                    concat_groups.add(par)
                if grand.get("concat"):
                    concat_groups.add(grand.get("parent"))
        for key, subs in sorted(changed.items()):
            root_new = f"Groups/{model.root}" not in self.pre[h]
            # a copy discarded by copy_from_extent (nothing selected) may leave the shared type it introduced
            type_intro = op["k"] == "copy_extent" and key.split("/")[-1] in {r["type_uid"] for hh in world.h.values() for r in hh.model.recs.values()}
            # (a GeoImage is cropped through a temporary Grid2D, removed again; the grid's type stays behind, unused)
            type_intro = type_intro or (op["k"] == "copy_extent" and key == "T/Object types/{48f5054a-1c5c-4ca4-9048-80f36dc60a06}"
                                        and any(r["cls"] == "GeoImage" for hh in world.h.values() for r in hh.model.recs.values()))
            type_edit = getattr(world, "last_type", None)
            if type_edit and type_edit[0] == h and key == type_edit[1] and ok_op:
                continue
            kparts = key.split("/")
            if op["k"] != "reattach" and kparts[0] in rawgeoh5.KINDS and (h, kparts[1]) in self.deferred_links and all(x.startswith("children:") for x in subs):
                # the child link dropped by an earlier detach-and-attach-again is restored by whichever later save walks that
                # parent (a move of an ancestor, the close); the entry stays until the next close
                continue
            verdict = self.allowed(key, subs, touch, parents, created, removed, zombie, used_types, touched_types, concat_groups, model, root_new, type_intro)
            if not verdict:
                kind = op["k"] if ok_op else f"{op['k']}:{outcome.split(':')[0]}"
                raise Violation("C09", "collateral_write", f"{op['k']} ({outcome}) changed {key} {sorted(subs)}",
                                {"op": kind, "node": key.split('/')[0], "subs": ",".join(sorted(s.split(':')[0] for s in subs))})

    @staticmethod
    def allowed(key, subs, touch, parents, created, removed, zombie, used_types, touched_types, concat_groups, model, root_new=False, type_intro=False) -> bool:
        parts = key.split("/")
        if key == "project":
            return subs <= {"root", "top"} and root_new
        if parts[0] in rawgeoh5.KINDS:
            uid = parts[1]
            if subs == {"+"}:
                return uid in created or (uid == model.root and root_new)
            if subs == {"-"}:
                return uid in removed or uid in zombie
            if uid in touch:
                return True
            if uid in concat_groups:
                return subs <= {"datasets", "other", "children:Data", "children:Groups", "children:Objects"}
            if uid in parents:
                return all(s.startswith("children:") or s == "pgs" for s in subs)
            return False
        if parts[0] == "T":
            uid = parts[-1]
            if subs == {"+"}:
                return uid in used_types or type_intro
            if subs == {"-"}:
                return uid not in used_types
            if subs == {"stats"}:
                return uid in touched_types
            return False
        if parts[0] in ("C", "CA"):
            group = parts[1]
            if group not in concat_groups and group not in created and group not in removed and group not in zombie:
                return False
            ids = parts[2].split("|") if parts[0] == "C" else [parts[2]]
            involved = touch | parents | created | removed | zombie | set(model.pgs()) | model.removed
            return any(i in involved for i in ids)
        return False

    def before_close(self, world, h):
        self.pre_boundary = self._dig(world).get(h)

    def after_reopen(self, world, h):
        handle = world.h[h]
        post = rawgeoh5.digests(rawgeoh5.read(handle.ws.geoh5))
        world.sim.oracle("digest_boundary")
        if getattr(self, "pre_boundary", None) is None:
            self.deferred_links = {d for d in self.deferred_links if d[0] != h}
            return
        changed = rawgeoh5.diff_digests(self.pre_boundary, post)
        model = handle.model
        zombie = set(model.zombies) | model.removed
        used_types = {r["type_uid"] for r in model.recs.values()}
        for key, subs in sorted(changed.items()):
            parts = key.split("/")
            if subs == {"-"} and ((parts[0] in rawgeoh5.KINDS and parts[1] in zombie) or (parts[0] == "T" and parts[-1] not in used_types)):
                continue
            if parts[0] in ("C", "CA") and subs == {"-"} and any(i in zombie for i in parts[2].split("|")):
                continue
            # attribute records of concatenated entities are written at close (deferred write of the op that made them)
            if parts[0] == "CA" and parts[2] in model.all_ids():
                continue
            if key == f"Groups/{model.root}" and subs == {"+"}:
                continue
            if parts[0] == "CA" and subs == {"+"} and (model.zombies.get(parts[2]) or {}).get("entry") == "parent":
                # the record of a concatenated hole removed through its parent while the caller still holds it comes back with the
                # close: the removal property's known finding (removal through the parent does not take the entity out of the file)
                raise Violation("C05", "file_keeps_removed", f"the close wrote the attribute record of {parts[2]} again, a hole removed through its parent and still referenced",
                                {"where": "concat_record", "entry": "parent"})
            if parts[0] in rawgeoh5.KINDS and (h, parts[1]) in self.deferred_links and all(x.startswith("children:") for x in subs):
                continue
            if key == "project" and subs <= {"root", "top"} and f"Groups/{model.root}" not in self.pre_boundary:
                continue
            raise Violation("C09", "boundary_write", f"close/re-open without mutation changed {key} {sorted(subs)}",
                            {"node": parts[0], "subs": ",".join(sorted(s.split(':')[0] for s in subs))})


class CopyOracle(Oracle):
    """C12: copy == source (modulo identifiers); the source is never disturbed, also by later edits of the copy."""

    prop = "C12"
    IGNORE_ATTRS = ("Current line property ID",)

    def __init__(self):
        self.pre_src = None

    def before(self, world, op):
        self.pre_all = {h: {u: _freeze(r) for u, r in handle.model.recs.items()} for h, handle in world.h.items()}

    def after(self, world, op, outcome):
        if op["k"] in ("copy", "copy_extent") and outcome == "ok" and world.copies and world.copies[-1].get("judged_eq") is None:
            world.copies[-1]["judged_eq"] = True
            self.judge_copy(world, world.copies[-1])
        # source aliasing: after any edit inside a copy, the source's LIVE records must equal the model
        if outcome == "ok" and op["k"] in ("set_values", "rename", "set_flag", "set_meta", "pg_add", "pg_rm", "pg_del", "rm_ws", "rm_parent", "add_data", "move", "move_data"):
            tgt = getattr(world, "last_target", None)
            if not tgt:
                return
            h, uids = tgt
            for info in world.copies:
                for side, other, oh in (("dst", "src", info["h"]), ("src", "dst", info["dh"])):
                    sh = info["dh"] if side == "dst" else info["h"]
                    if sh != h:
                        continue
                    smodel = world.h[sh].model
                    if info[side] not in smodel.recs:
                        continue
                    if not (set(uids) & set(smodel.subtree(info[side]))):
                        continue
                    omodel = world.h[oh].model
                    if info[other] not in omodel.recs or world.h[oh].ws is None:
                        continue
                    world.sim.oracle("alias_check")
                    root = world.ent(oh, info[other], fresh=True)
                    live = snapshot.subtree(world.h[oh].ws, root)
                    del root
                    want = {u: omodel.recs[u] for u in omodel.subtree(info[other])}
                    diffs = compare.diff_trees(want, live, "MODEL", "LIVE")
                    if diffs:
                        raise Violation("C12", "edit_shows_through", f"after {op['k']} on the {side} side, the {other} side changed: {diffs[0]}",
                                        {"op": op["k"], "field": _field(diffs[0]), "edited": side})

    def judge_copy(self, world, info):
        world.sim.oracle("copy_equal")
        src_model = world.h[info["h"]].model
        new = info["new"]
        src_root = src_model.recs[info["src"]]
        dst_root = new[info["dst"]]
        # between files of different format versions a drillhole group and its content change storage class (plain <-> concatenated)
        self._xver = world.version(info["h"]) != world.version(info["dh"])
        try:
            self.match(src_model, info["src"], new, info["dst"], info, top=True)
        except Violation as vio:
            dmodel = world.h[info["dh"]].model
            reused = [u for u in new if getattr(dmodel, "removed_entry", {}).get(u) == "parent"]
            if reused:
                # the copy took the identifier of an entity removed through its parent, whose node (with its children) is still in the
                # file: the known finding of the removal / equivalence properties, seen through the copy
                raise Violation("C01", "state_differs", f"copy meets the node left by a removal through the parent: {vio.detail}",
                                {"field": vio.discr.get("field"), "view": "LIVE", "reuses_uid_removed_by": "parent"}) from None
            raise
        # the source is unchanged (LIVE) -- compare with the model, which the copy did not touch
        root = world.ent(info["h"], info["src"], fresh=True)
        live = snapshot.subtree(world.h[info["h"]].ws, root)
        del root
        want = {u: src_model.recs[u] for u in src_model.subtree(info["src"])}
        diffs = compare.diff_trees(want, live, "MODEL", "LIVE")
        if diffs:
            raise Violation("C12", "source_disturbed", diffs[0], {"field": _field(diffs[0]), "cls": src_root["cls"]})

    SIG_FIELDS = ("kind", "cls", "type_uid", "name", "flags", "values", "primitive", "metadata")
    _xver = False

    def _cls(self, name):
        if self._xver and name:
            for prefix in ("Concatenator", "Concatenated"):
                if name.startswith(prefix):
                    return name[len(prefix):]
        return name

    def sig(self, recs, uid, with_children=True):
        """Identifier-free signature of a record (and, recursively, of its subtree and property groups)."""
        rec = recs[uid]
        body = {f: rec.get(f) for f in self.SIG_FIELDS if not (f == "type_uid" and rec["kind"] == "data")}
        body["cls"] = self._cls(body["cls"])
        body["metadata"] = body["metadata"] or None
        body["attrs"] = {k: (compare.flat(v) if isinstance(v, list) else v) for k, v in rec.get("attrs", {}).items() if k not in self.IGNORE_ATTRS}
        body["arrays"] = {k: compare.flat(v) if k != "options" else (v or {}) for k, v in rec.get("arrays", {}).items()}
        if with_children and rec["kind"] != "data":
            kids = {c: self.sig(recs, c) for c in rec["children"] if c in recs}
            body["children"] = sorted(kids.values())
            body["pgs"] = sorted(
                rawgeoh5.sha([p["name"], p["assoc"], p["type"], [kids.get(x, "?") for x in p["props"]]])
                for p in rec.get("pgs", {}).values())
        return rawgeoh5.sha(_num_norm(body))

    def match(self, src_model, s_uid, new, d_uid, info, top=False):
        s, d = src_model.recs[s_uid], new[d_uid]
        if top and info.get("masked_values") is not None:
            s = {**s, "values": info["masked_values"]}      # a masked data copy: kept values, no-data elsewhere
        cls = s["cls"]
        if getattr(self, "_xver", False):
            s, d = {**s, "cls": self._cls(s["cls"])}, {**d, "cls": self._cls(d["cls"])}
        # (a copied data set may get a data type of its own -- the drillhole-group copy path does that; the property asks for equal
        #  class, attributes and values, which for a data set means the same primitive type, not the same type node)
        fields = tuple(f for f in self.SIG_FIELDS if not (f == "type_uid" and s["kind"] == "data"))
        diffs = compare.diff_record(s, d, "SRC", "COPY", fields=fields)
        diffs += compare.diff_record(s, d, "SRC", "COPY", fields=("attrs", "arrays"), skip_attrs=self.IGNORE_ATTRS)
        if diffs:
            raise Violation("C12", "copy_differs", f"{cls}: {diffs[0]}", {"cls": cls, "field": _field(diffs[0])})
        if s["kind"] == "data":
            return
        s_kids = list(s["children"])
        d_kids = [c for c in d["children"] if c in new]
        if top and not info["children"]:
            if d_kids:
                raise Violation("C12", "copy_differs", f"{cls}: copy_children=False but the copy has children", {"cls": cls, "field": "children"})
            return
        s_sigs = {c: self.sig(src_model.recs, c) for c in s_kids}
        d_sigs = {c: self.sig(new, c) for c in d_kids}
        if sorted(s_sigs.values()) != sorted(d_sigs.values()):
            # find the closest pairing to name the difference
            pool = dict(d_sigs)
            for c, sg in sorted(s_sigs.items(), key=lambda kv: (src_model.recs[kv[0]]["name"], kv[0])):
                hit = next((dc for dc, dsg in pool.items() if dsg == sg), None)
                if hit is not None:
                    del pool[hit]
                    continue
                sk = src_model.recs[c]
                cand = [dc for dc in pool if new[dc]["kind"] == sk["kind"] and new[dc]["name"] == sk["name"]]
                if not cand:
                    raise Violation("C12", "copy_differs", f"{cls}: child {sk['kind']} {sk['name']!r} ({sk['cls']}) missing in the copy",
                                    {"cls": cls, "field": "children", "child": sk["cls"]})
                self.match(src_model, c, new, cand[0], info)   # raises with the precise field
                raise Violation("C12", "copy_differs", f"{cls}: subtree of child {sk['name']!r} differs in the copy", {"cls": cls, "field": "children", "child": sk["cls"]})
            extra = next(iter(pool))
            raise Violation("C12", "copy_differs", f"{cls}: extra child {new[extra]['name']!r} in the copy", {"cls": cls, "field": "children"})
        s_pgs = sorted(rawgeoh5.sha([p["name"], p["assoc"], p["type"], [s_sigs.get(x, "?") for x in p["props"]]]) for p in s.get("pgs", {}).values())
        d_pgs = sorted(rawgeoh5.sha([p["name"], p["assoc"], p["type"], [d_sigs.get(x, "?") for x in p["props"]]]) for p in d.get("pgs", {}).values())
        if s_pgs != d_pgs:
            raise Violation("C12", "copy_differs", f"{cls}: property groups differ: SRC={list(s.get('pgs', {}).values())} COPY={list(d.get('pgs', {}).values())}",
                            {"cls": cls, "field": "pgs"})


def _num_norm(val):
    """ints and integral floats hash alike (1 == 1.0), recursively."""
    if isinstance(val, bool):
        return int(val)
    if isinstance(val, float) and val == int(val) and abs(val) < 2**53:
        return int(val)
    if isinstance(val, dict):
        return {k: _num_norm(v) for k, v in val.items()}
    if isinstance(val, (list, tuple)):
        return [_num_norm(v) for v in val]
    return val


def _freeze(rec):
    return rawgeoh5.sha(rec)


def _base_cls(cls: str) -> str:
    return cls


def _field(diff: str) -> str:
    parts = diff.split(" ")
    return parts[1].rstrip(":") if len(parts) > 1 else "?"
