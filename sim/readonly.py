"""
The read-only machine (C10).  A world-machine prefix produces a closed file F.  A handle R opens it with
mode='r' -- alone, or while a writable handle on the same file is open in the process (co-open cell).
Every operation of the vocabulary is applied to R and to a per-operation writable twin (a copy of F opened
'r+'):  F's bytes never change and R never reports a writable mode;  whatever made the twin's file change
must have raised on R (refinement);  helpers acting on R's behalf leave F unchanged.
"""

from __future__ import annotations

import json
import random
import shutil

import numpy as np

from . import compare, rawgeoh5, snapshot
from .kernel import H, Sim, Violation
from .scenarios import BaseScenario
from .world import World, MUTATING

PREFIX_KINDS = {"mk_group": 6, "mk_object": 12, "add_data": 12, "add_comment": 2, "add_file": 1, "set_meta": 3, "pg_add": 4, "pg_new": 1, "copy": 3, "move": 2}
RO_KINDS = {"mk_group": 4, "mk_object": 5, "add_data": 6, "add_comment": 3, "add_file": 2, "set_values": 5, "rename": 5, "set_flag": 4, "set_meta": 4,
            "move": 3, "move_data": 2, "copy": 5, "rm_ws": 5, "rm_parent": 4, "pg_add": 4, "pg_rm": 2, "pg_del": 2, "pg_new": 2, "type_edit": 3, "mk_dup": 1,
            "observe": 6, "lookup": 4, "list": 4, "gc": 2,
            "hole_attr": 4, "h_fetch_active": 3, "h_fetch_rplus": 2, "h_monitored_copy": 3, "h_uijson": 3, "copy_out": 4, "copy_in": 3, "reopen_r": 3, "coop_write": 0, "h_save_as_refused": 2, "h_save_as_other": 2, "h_stale_remove": 2, "h_fetch_r_on_closed": 2, "c_pg_rm": 2, "c_set_values": 2, "c_add_data": 1}


class ReadOnlyScenario(BaseScenario):
    prop = "C10"
    list_keys = ["prefix", "ops"]

    def __init__(self):
        self.expected_probes = ["ro_refused", "ro_ok", "twin_changed", "twin_unchanged", "helper_fetch_active", "helper_monitored_copy", "helper_uijson",
                                "copy_out", "copy_in_refused", "reopen_r", "coopen"]
        self.rule = ("one evaluation = one seeded history: a writable prefix builds a file; a handle opens it mode='r' (alone, or co-opened with a writable handle "
                     "in the same process); 6-24 operations of the whole vocabulary (getters, setters, creations, removals, copies in/out, property-group edits, "
                     "listings, helpers fetch_active_workspace / monitored_directory_copy / InputFile.read_ui_json) are applied to it and to a per-operation writable "
                     "twin. Oracles: SHA-256 of the file's bytes, handle mode, must-raise refinement against the twin. distinct = distinct abstract trace; "
                     "non-trivial = >= 3 operations that had to write (twin changed) and >= 1 schedule event.")
        self.assumptions = ["h5py/HDF5 are trusted to not write through a file id opened read-only", "the twin (same operation on a writable copy) defines 'has to write'"]
        self.stubs = ["h5repack (subprocess)"]

    def make_config(self, rng):
        return {"version": rng.choices([2.1, 2.0, 1.0], [6, 3, 1])[0], "start": "disk", "two_ws": False, "gc": rng.choice(["none", "op", "io"]),
                "gc_density": rng.choice([0.15, 0.4]), "keep_prob": rng.choice([0.0, 0.5]), "h5repack": rng.choices(["absent", "ok", "fail"], [3, 2, 1])[0],
                "n_prefix": rng.choice([4, 8, 12]), "n_ops": rng.choice([6, 12, 24]), "tidy": True, "coopen": rng.random() < 0.1,
                "reopen_after_refusal": rng.random() < 0.75, "disabled": [], "r_via_open": rng.random() < 0.4}

    def simplify_config(self, cfg):
        out = []
        if cfg.get("gc") != "none":
            out.append({**cfg, "gc": "none"})
        if cfg.get("version") != 2.1:
            out.append({**cfg, "version": 2.1})
        return out

    # ------------------------------------------------------------------------------------------
    def execute(self, seed, program=None):
        from geoh5py import Workspace

        rng = random.Random(H(seed, "program"))
        if program is None:
            cfg = self.make_config(rng)
            prefix, ops = None, None
        else:
            cfg, prefix, ops = program["config"], program["prefix"], program["ops"]
        sim = Sim(seed, cfg)
        status, violation, suspect = "ok", None, None
        executed_prefix, executed = [], []
        n_wrote = 0
        trace = []
        with sim.running():
            world = World(sim, cfg, "C10", [])
            try:
                # ---- writable prefix
                world.weights = lambda: dict(PREFIX_KINDS)
                world.open_initial()
                n_prefix = len(prefix) if prefix is not None else cfg["n_prefix"]
                seeded = []
                if prefix is None and cfg.get("version", 2.1) >= 2.0 and rng.random() < 0.4:
                    # make sure concatenated drillholes are present in a good share of the files
                    from . import build

                    r2 = random.Random(H(seed, "concat-seed"))
                    seeded = [
                        {"id": 0, "k": "mk_group", "sub": r2.getrandbits(64), "h": "A", "keep": False, "cls": "DrillholeGroup", "name": "dh group",
                         "t": {"by": None, "n": 0, "fb": 0, "want": "container"}},
                        {"id": 1, "k": "mk_object", "sub": r2.getrandbits(64), "h": "A", "keep": False, "cls": "Drillhole",
                         "t": {"by": 0, "n": 0, "fb": 0, "want": "groupish"}, "args": build.gen_object_args(r2, "Drillhole")},
                    ]
                for i in range(n_prefix):
                    op = prefix[i] if prefix is not None else (seeded[i] if i < len(seeded) else world.gen_op(rng, i))
                    executed_prefix.append(op)
                    world.apply(op)
                    if world.suspect:
                        break
                handle = world.h["A"]
                # concatenated content for the read-only handle to be tried on: a depth table with two data sets on a stored hole
                self._c10 = None
                if not world.suspect:
                    holes = sorted(u for u, r in handle.model.recs.items() if r.get("concat") and r["kind"] == "object")
                    if holes:
                        hole = world.ent("A", holes[0], fresh=True)
                        try:
                            hole.add_data({"c10a": {"depth": np.arange(3.0), "values": np.arange(3.0)}, "c10b": {"depth": np.arange(3.0), "values": np.arange(3.0) + 10.0}},
                                          property_group="c10pg")
                            self._c10 = holes[0]
                            sim.probe("concat_content")
                        except Exception:  # pylint: disable=broad-except
                            self._c10 = None
                        del hole
                world.drop_all()
                handle.ws.close()
                handle.ws = None
                path = handle.path
                base_sha = rawgeoh5.file_sha256(path)
                base_sem = rawgeoh5.digests(rawgeoh5.read(path))
                writer = None
                if cfg.get("coopen") and not world.suspect:
                    writer = Workspace(path, mode="r+")     # a writable handle on the same file, same process
                    sim.probe("coopen")
                    sim.fault("coopen_rplus_handle")
                self._stale = None
                pre = None
                if cfg.get("r_via_open") and not world.suspect:
                    # the caller obtained a data set in the writable session that precedes open(mode='r') on the same object
                    import uuid as _uuid

                    recs = handle.model.recs
                    cands = sorted(u for u, r in recs.items() if r["kind"] == "data" and not r.get("concat") and recs[r["parent"]]["kind"] == "object"
                                   and not recs[r["parent"]].get("pgs") and not recs[r["parent"]].get("concat") and r["flags"]["allow_delete"])
                    pre = Workspace(path)
                    if cands:
                        self._stale = (cands[0], recs[cands[0]]["parent"], pre.get_entity(_uuid.UUID(cands[0].strip("{}")))[0])
                ro = self.open_ro(cfg, path, pre)
                if cfg.get("r_via_open"):
                    sim.probe("r_via_open")
                    if rawgeoh5.file_sha256(path) != base_sha:
                        raise Violation("C09", "noop_session_wrote", "opening and closing a workspace without any call changed the file's bytes", {})
                handle.ws = ro
                self.check_mode(ro, "open")
                world.weights = lambda: dict(RO_KINDS)
                world.ro = True
                suspended = False
                n_ops = len(ops) if ops is not None else cfg["n_ops"]
                for i in range(n_ops):
                    if world.suspect:
                        break
                    op = ops[i] if ops is not None else self.gen_ro_op(world, rng, 1000 + i)
                    executed.append(op)
                    kind = op["k"]
                    if kind.startswith(("h_", "c_")) or kind in ("copy_out", "copy_in", "reopen_r", "coop_write"):
                        outcome = self.special(world, sim, op, path, writer)
                        trace.append(f"{kind}:{outcome}")
                        if outcome == "reopened" or (outcome == "refused" and cfg.get("reopen_after_refusal")):
                            suspended = False
                        elif outcome == "refused":
                            suspended = True
                    else:
                        twin_changed, twin_outcome = self.twin(world, sim, cfg, op, path)
                        outcome = self.apply_ro(world, op)
                        trace.append(f"{kind}:{outcome.split(':')[0]}:{int(twin_changed)}")
                        sim.record("ro", op["id"], kind, outcome, twin_outcome, twin_changed)
                        if twin_changed:
                            n_wrote += 1
                            sim.probe("twin_changed")
                            # after an earlier refusal (and no re-open) R's in-memory graph may have moved: the same
                            # request may then be a no-op in memory -- must-raise is judged on a freshly opened R only
                            if not outcome.startswith(("refused", "skipped")) and not suspended:
                                raise Violation("C10", "write_not_refused", f"{kind} had to write (the writable twin's file changed) but on the read-only workspace "
                                                f"it returned {outcome!r} instead of raising", {"op": kind, "cls": op.get("cls") or op.get("dkind") or ""})
                        else:
                            sim.probe("twin_unchanged")
                        if outcome.startswith("refused"):
                            sim.probe("ro_refused")
                            if cfg.get("reopen_after_refusal"):
                                world.drop_all()
                                ro.close()
                                ro = self.open_ro(cfg, path, ro)
                                handle.ws = ro
                                suspended = False
                            else:
                                suspended = True   # R's in-memory state may have moved: lookups may now fail
                        elif outcome == "ok":
                            sim.probe("ro_ok")
                    # bytes and mode after every event issued through R
                    sim.oracle("bytes_unchanged")
                    ro = handle.ws
                    if writer is None and kind == "h_fetch_rplus":
                        # the helper legitimately held the file writable for its own block: no stored content may
                        # differ afterwards, the byte layout may (re-baseline)
                        ro.close()
                        sem_now = rawgeoh5.digests(rawgeoh5.read(path))
                        if cfg.get("r_via_open"):
                            ro.open(mode="r")
                        else:
                            ro.open()
                        if sem_now != base_sem:
                            raise Violation("C10", "content_changed", "the stored content changed across a helper block that re-opened the workspace 'r+' without any request to write",
                                            {"op": kind})
                        base_sha = rawgeoh5.file_sha256(path)
                    elif writer is None:
                        now = rawgeoh5.file_sha256(path)
                        if now != base_sha:
                            raise Violation("C10", "bytes_changed", f"the file's bytes changed during {kind} on the read-only workspace",
                                            {"op": kind, "coopen": False})
                    else:
                        raw_now = rawgeoh5.digests(rawgeoh5.read(writer.geoh5))
                        if getattr(self, "_co_digest", None) is not None and raw_now != self._co_digest and kind != "coop_write":
                            raise Violation("C10", "bytes_changed", f"the stored content changed during {kind} on the read-only workspace (co-open)",
                                            {"op": kind, "coopen": True})
                        self._co_digest = raw_now
                    if ro is not None and ro._geoh5:  # pylint: disable=protected-access
                        self.check_mode(ro, kind)
                    if sim.gc_mode == "op" and random.Random(H(op["sub"], "gcop")).random() < sim.gc_density:
                        sim.collect("op")
                self._co_digest = None
                world.drop_all()
                if handle.ws is not None:
                    handle.ws.close()
                if writer is not None:
                    writer.close()
                if not world.suspect and writer is None and rawgeoh5.file_sha256(path) != base_sha:
                    raise Violation("C10", "bytes_changed", "the file's bytes changed when the read-only workspace was closed", {"op": "close", "coopen": False})
            except Violation as vio:
                violation = {"prop": vio.prop, "tag": vio.tag, "detail": vio.detail, "discr": vio.discr, "event": sim.events}
                sim.record("violation", vio.prop, vio.tag, vio.discr)
                status = "violation" if vio.prop == self.prop else "foreign"
            if world.suspect and status == "ok":
                status, suspect = "suspect", world.suspect
            stats = {"events": sim.events, "ops": len(executed), "faults": dict(sim.faults), "probes": dict(sim.probes), "oracle_evals": dict(sim.oracle_evals),
                     "trace_hash": rawgeoh5.sha(trace), "nontrivial": n_wrote >= 3, "states": [], "clock_lo": sim.clock.lo, "clock_hi": sim.clock.hi,
                     "cell": "coopen" if cfg.get("coopen") else "alone"}
            digest = sim.digest()
            self._co_digest = None
            world.slots.clear()
            for hd in world.h.values():
                if hd.ws is not None:
                    try:
                        hd.ws.close()
                    except Exception:  # pylint: disable=broad-except
                        pass
                    hd.ws = None
            try:
                if "writer" in locals() and writer is not None:
                    writer.close()
            except Exception:  # pylint: disable=broad-except
                pass
        return {"status": status, "violation": violation, "suspect": suspect,
                "program": {"config": cfg, "prefix": executed_prefix, "ops": executed}, "stats": stats, "digest": digest}

    @staticmethod
    def open_ro(cfg, path, existing=None):
        """The read-only handle: Workspace(path, mode='r'), or -- r_via_open -- a workspace constructed with the default
        mode, closed, and opened read-only with open(mode='r') (its constructor mode is then r+)."""
        from geoh5py import Workspace

        if not cfg.get("r_via_open"):
            return Workspace(path, mode="r")
        if existing is None:
            existing = Workspace(path)      # default mode; an open / close without any call in between writes nothing
            existing.close()
        elif existing._geoh5:  # pylint: disable=protected-access
            existing.close()
        existing.open(mode="r")
        return existing

    @staticmethod
    def check_mode(ro, where):
        mode = ro.geoh5.mode
        if mode != "r":
            raise Violation("C10", "mode_not_readonly", f"a workspace opened with mode='r' reports mode {mode!r} ({where})", {"mode": mode, "at": "open" if where == "open" else "later"})

    # ------------------------------------------------------------------------------------------
    def gen_ro_op(self, world, rng, op_id):
        kinds = sorted(k for k, v in RO_KINDS.items() if v > 0)
        for _ in range(30):
            kind = rng.choices(kinds, [RO_KINDS[k] for k in kinds])[0]
            sub = rng.getrandbits(64)
            orng = random.Random(H(sub, "args"))
            if kind.startswith(("h_", "c_")) or kind in ("copy_out", "copy_in", "reopen_r", "coop_write"):
                t = world.target(orng, "A", "holder", lambda r: not r.get("concat_group") and not r.get("concat"))
                return {"id": op_id, "k": kind, "sub": sub, "h": "A", "keep": False, "t": t, "children": orng.random() < 0.7}
            args = getattr(world, "gen_" + kind)(orng, "A")
            if args is None:
                continue
            return {"id": op_id, "k": kind, "sub": sub, "h": "A", "keep": orng.random() < world.cfg.get("keep_prob", 0.3), **args}
        return {"id": op_id, "k": "gc", "sub": rng.getrandbits(64), "h": "A", "keep": False}

    def apply_ro(self, world, op):
        """Apply a world operation to the read-only handle: exceptions are refusals, the model never moves."""
        sim = world.sim
        saved_model = world.h["A"].model.clone()
        world.call_expect_either = True
        sim.begin_op(op["sub"])
        try:
            try:
                outcome = getattr(world, "do_" + op["k"])(op)
            except Violation as vio:
                if vio.prop == "C10":
                    raise
                outcome = "oracle:" + vio.tag     # another property's live-state oracle on a refused path: not judged here
            except Exception as err:  # pylint: disable=broad-except
                # the world's own bookkeeping met a workspace the operation left in an unexpected state (e.g. closed):
                # the file-level oracles of the caller decide, not the bookkeeping
                outcome = "broke:" + type(err).__name__
        finally:
            sim.end_op()
            world.call_expect_either = False
            world.suspect = None
        sim.drain_warnings()
        world.h["A"].model = saved_model          # whatever R did in memory, the file (the model) is unchanged
        return outcome

    def twin(self, world, sim, cfg, op, path):
        """The same operation on a writable copy of the file: did it have to write?"""
        from geoh5py import Workspace

        twin_path = sim.path("twin.geoh5")
        shutil.copy(path, twin_path)
        tw = World(sim, {**cfg, "tidy": True}, "C10", [])
        handle = type(world.h["A"])("A", twin_path)
        handle.ws = Workspace(twin_path, mode="r+")
        handle.model = world.h["A"].model.clone()
        tw.h["A"] = handle
        tw.created = {k: list(v) for k, v in world.created.items()}
        before = rawgeoh5.digests(rawgeoh5.read(handle.ws.geoh5))
        handle.ws.repack = False
        tw.call_expect_either = True
        sim.begin_op(op["sub"])
        try:
            try:
                outcome = getattr(tw, "do_" + op["k"])(op)
            except Violation as vio:
                outcome = "oracle:" + vio.tag
        finally:
            sim.end_op()
        sim.drain_warnings()
        tw.slots.clear()
        handle.ws.close()     # deferred writes (concatenated attribute records) land at close
        after = rawgeoh5.digests(rawgeoh5.read(twin_path))
        twin_path.unlink()
        return before != after, outcome

    # ------------------------------------------------------------------------------------------
    def special(self, world, sim, op, path, writer):
        """Helpers and cross-workspace copies on behalf of the read-only handle."""
        from geoh5py import Workspace
        from geoh5py.shared.utils import fetch_active_workspace
        from geoh5py.ui_json.utils import monitored_directory_copy

        kind = op["k"]
        handle = world.h["A"]
        ro = handle.ws
        model = handle.model
        uid = world.resolve("A", op["t"], lambda r: not r.get("concat_group") and not r.get("concat")) if op.get("t") else None
        if kind == "reopen_r":
            world.drop_all()
            ro.close()
            handle.ws = self.open_ro(world.cfg, path, ro)
            sim.probe("reopen_r")
            return "reopened"
        if kind == "h_save_as_refused":
            # saving under a name that exists is refused; whatever state that leaves, the handle is not writable afterwards
            world.drop_all()
            try:
                ro.save_as(path)
                raised = False
            except Exception:  # pylint: disable=broad-except
                raised = True
            if not raised:
                raise Violation("C10", "write_not_refused", "save_as onto an existing file did not raise", {"op": "save_as", "cls": ""})
            sim.probe("save_as_refused")
            if ro._geoh5:  # pylint: disable=protected-access
                self.check_mode(ro, "after a refused save_as")
            handle.ws = self.open_ro(world.cfg, path, ro) if world.cfg.get("r_via_open") else Workspace(path, mode="r")
            return "reopened"
        if kind == "h_stale_remove":
            # a removal requested with a handle from the earlier (writable) session of the same workspace object
            stale = getattr(self, "_stale", None)
            if stale is None or stale[2] is None or not ro._geoh5:  # pylint: disable=protected-access
                return "skipped"
            import uuid as _uuid

            parent = ro.get_entity(_uuid.UUID(stale[1].strip("{}")))[0]
            if parent is None:
                return "skipped"
            try:
                parent.remove_children([stale[2]])
                raised = False
            except Exception:  # pylint: disable=broad-except
                raised = True
            del parent
            sim.probe("stale_handle_removal")
            if not raised:
                raise Violation("C10", "write_not_refused", "remove_children with a data handle from the workspace's earlier writable session returned without raising "
                                "(the file still links the child)", {"op": "stale_remove", "cls": "data"})
            return "refused"
        if kind == "h_save_as_other":
            # another workspace (in memory, or itself read-only on its own file) is saved under the name of the file R holds,
            # spelled with or without the extension the library appends: refused, R's file keeps its bytes
            r = random.Random(H(op["sub"], "other"))
            spelled = path if r.random() < 0.35 else path.with_suffix("")
            how = ("memory", "create", "disk_r")[r.randrange(3)]
            other = None
            try:
                if how == "disk_r":
                    src = sim.path(f"other{op['id']}.geoh5")
                    Workspace.create(src).close()
                    other = Workspace(src, mode="r")
                elif how == "memory":
                    other = Workspace()
                try:
                    if how == "create":
                        other = Workspace.create(spelled)
                    else:
                        other.save_as(spelled)
                    raised = False
                except Exception:  # pylint: disable=broad-except
                    raised = True
            finally:
                if other is not None:
                    other.close()
            sim.probe("save_as_other_" + ("spelled_bare" if spelled != path else "spelled_full"))
            if not raised:
                raise Violation("C10", "write_not_refused", f"saving another workspace ({how}) under the name of the file held read-only ({'without' if spelled != path else 'with'} "
                                "its extension) did not raise", {"op": "save_as_other", "cls": how})
            return "ok"
        if kind == "coop_write":
            return "skipped"
        if kind == "h_fetch_rplus":
            # a helper re-opens the read-only workspace writable for its own block; afterwards a plain open()
            # must give back the mode the workspace was created with
            world.drop_all()
            with fetch_active_workspace(ro, mode="r+"):
                pass
            if world.cfg.get("r_via_open"):
                ro.open(mode="r")       # (its constructor mode is the default one: a plain open() would rightly be writable)
            else:
                ro.open()
            sim.probe("helper_fetch_rplus")
            return "reopened"
        if kind.startswith("c_"):
            # edits of concatenated content (stored inside the drillhole group's node) through the read-only handle
            if getattr(self, "_c10", None) is None:
                return "skipped"
            import uuid as _uuid

            hole = ro.get_entity(_uuid.UUID(self._c10.strip("{}")))[0]
            if hole is None:
                return "skipped"
            try:
                if kind == "c_pg_rm":
                    group = [g for g in (hole.property_groups or []) if g.name == "c10pg"]
                    data = hole.get_data("c10a")
                    if not group or not data:
                        return "skipped"
                    group[0].remove_properties(data[0])
                elif kind == "c_set_values":
                    data = hole.get_data("c10b")
                    if not data:
                        return "skipped"
                    data[0].values = np.arange(3.0) + 100.0
                else:
                    hole.add_data({"c10c": {"depth": np.arange(3.0), "values": np.arange(3.0) + 20.0}}, property_group="c10pg")
                raised = False
            except Exception:  # pylint: disable=broad-except
                raised = True
            del hole
            sim.probe("concat_edit_on_readonly")
            if not raised and world.cfg.get("fresh_r", True):
                raise Violation("C10", "write_not_refused", f"{kind}: an edit of concatenated drillhole content through the read-only workspace did not raise",
                                {"op": kind, "cls": "Concatenated"})
            world.drop_all()
            ro.close()
            handle.ws = self.open_ro(world.cfg, path, ro)
            return "reopened"
        if kind == "h_fetch_r_on_closed":
            # the helper is handed the CLOSED workspace and asked for read access: whatever the workspace's own
            # constructor mode, the block must see a read-only handle and the file must not change
            world.drop_all()
            ro.close()
            with fetch_active_workspace(ro, mode="r") as got:
                if got.geoh5.mode != "r":
                    raise Violation("C10", "helper_mode", f"fetch_active_workspace(closed workspace, 'r') yields mode {got.geoh5.mode!r}",
                                    {"helper": "fetch_active_workspace", "closed": True})
                got.root.children  # pylint: disable=pointless-statement
            sim.probe("helper_fetch_r_on_closed")
            handle.ws = self.open_ro(world.cfg, path, ro)
            return "reopened"
        if kind == "h_fetch_active":
            with fetch_active_workspace(ro, mode="r") as got:
                if got.geoh5.mode != "r":
                    raise Violation("C10", "helper_mode", f"fetch_active_workspace(ws, 'r') yields mode {got.geoh5.mode!r}", {"helper": "fetch_active_workspace"})
                got.root.children  # pylint: disable=pointless-statement
            sim.probe("helper_fetch_active")
            return "ok"
        if uid is None:
            return "skipped"
        if kind == "h_monitored_copy":
            ent = world.ent("A", uid, fresh=True)
            out_dir = sim.path("monitor")
            out_dir.mkdir(exist_ok=True)
            sim.clock.advance(1.0)
            live_name = ent.name
            try:
                new_file = monitored_directory_copy(str(out_dir), ent, copy_children=op["children"])
            except Exception as err:  # pylint: disable=broad-except
                del ent
                world.suspect = None
                sim.probe("helper_monitored_copy_raised")
                return "raised:" + type(err).__name__
            del ent
            sim.probe("helper_monitored_copy")
            with Workspace(new_file, mode="r") as copy_ws:
                names = [c.name for c in copy_ws.root.children]
            if live_name not in names:
                raise Violation("C10", "helper_copy_incomplete", f"monitored_directory_copy did not export {live_name!r}", {"helper": "monitored_directory_copy"})
            if handle.ws._geoh5 and handle.ws.geoh5.mode != "r":  # pylint: disable=protected-access
                raise Violation("C10", "mode_not_readonly", "monitored_directory_copy left the source workspace writable", {"mode": handle.ws.geoh5.mode, "at": "helper"})
            return "ok"
        if kind == "h_uijson":
            from geoh5py.ui_json import templates
            from geoh5py.ui_json.constants import default_ui_json
            from geoh5py.ui_json.input_file import InputFile

            rec = model.recs[uid]
            ui = dict(default_ui_json)
            ui.update({"title": "sim", "geoh5": str(path), "run_command": "x", "monitoring_directory": "", "conda_environment": "",
                       "workspace_geoh5": ""})
            if rec["kind"] == "object":
                ui["obj"] = templates.object_parameter(value=uid.strip("{}"), mesh_type=[])
                ui["obj"]["meshType"] = [rec["type_uid"].strip("{}")]
            else:
                ui["grp"] = templates.group_parameter(value=uid.strip("{}")) if hasattr(templates, "group_parameter") else templates.string_parameter(value="x")
            ui_path = sim.path("in.ui.json")
            ui_path.write_text(json.dumps(InputFile.stringify(InputFile.demote(ui)), default=str))
            try:
                ifile = InputFile.read_ui_json(ui_path)
                data = ifile.data
                target = data.get("obj") if rec["kind"] == "object" else None
                if rec["kind"] == "object" and (target is None or snapshot.ustr(target.uid) != uid):
                    raise Violation("C10", "helper_uijson_value", f"loading the ui.json did not resolve the object {uid}", {"helper": "read_ui_json"})
                ws2 = ifile.geoh5
                del data, target
                if ws2 is not None and ws2._geoh5:  # pylint: disable=protected-access
                    if ws2.geoh5.mode != "r" and not world.cfg.get("coopen"):
                        raise Violation("C10", "helper_mode", f"the workspace opened for a ui.json has mode {ws2.geoh5.mode!r}", {"helper": "read_ui_json"})
                    ws2.close()
            except Violation:
                raise
            except Exception as err:  # pylint: disable=broad-except
                sim.probe("helper_uijson_raised")
                return "raised:" + type(err).__name__
            sim.probe("helper_uijson")
            return "ok"
        if kind == "copy_out":
            # copying OUT of the read-only workspace into a writable one must work and leave the source alone
            other = Workspace.create(sim.path(f"out{op['id']}.geoh5"))
            ent = world.ent("A", uid, fresh=True)
            try:
                new = ent.copy(parent=other, copy_children=op["children"])
                ok = new is not None
                del new
            except Exception as err:  # pylint: disable=broad-except
                ok = False
                sim.probe("copy_out_raised:" + type(err).__name__)
            del ent
            try:
                other.close()
            except Exception as err:  # pylint: disable=broad-except   (the target's trouble is C12's business, not the read-only file's)
                ok = False
                sim.probe("copy_out_target_close_raised:" + type(err).__name__)
            sim.probe("copy_out")
            return "ok" if ok else "raised"
        if kind == "copy_in":
            # copying INTO the read-only workspace has to write: it must raise
            other = Workspace.create(sim.path(f"in{op['id']}.geoh5"))
            from geoh5py.objects import Points

            src = Points.create(other, vertices=np.zeros((2, 3)), name="incoming")
            parent = world.ent("A", uid, fresh=True) if model.recs[uid]["kind"] == "group" else ro.root
            try:
                src.copy(parent=parent)
                raised = False
            except Exception:  # pylint: disable=broad-except
                raised = True
            del src, parent
            other.close()
            if not raised:
                raise Violation("C10", "write_not_refused", "copying an object INTO the read-only workspace did not raise", {"op": "copy_in", "cls": "Points"})
            sim.probe("copy_in_refused")
            if world.cfg.get("reopen_after_refusal"):
                world.drop_all()
                handle.ws.close()
                handle.ws = self.open_ro(world.cfg, path, handle.ws)
            return "refused"
        return "skipped"
