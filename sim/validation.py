"""
The validation machines (C15, history half): long-lived validating objects receive valid and invalid values in
seeded order, interleaved with workspace close / GC events.  Oracle = fresh-twin differential: the verdict (accept or
exception class) of the aged object must equal the verdict of a freshly constructed object holding the same current
form; a rejected call leaves the stored data / form / value exactly as before.

 * InputFileScenario -- InputFile + its InputValidation over a ui.json with every switch kind (optional, enabled,
   group / groupOptional, dependency / dependencyType, isValue, parent, dataGroupType, choice list, one_of)
 * ParamScenario     -- Parameter family, FormParameter family, EnforcerPool, UIJson

That the accepted set is exactly the valid set over the 2^6 switch space is a pure function of (form, value) -- input
enumeration, not decided here.
"""

from __future__ import annotations

import random
import uuid
from copy import deepcopy

import numpy as np

from . import rawgeoh5
from .kernel import H, Sim, Violation
from .scenarios import BaseScenario


def leaf(val):
    from geoh5py.groups import PropertyGroup
    from geoh5py.shared import Entity
    from geoh5py.workspace import Workspace

    if isinstance(val, (Entity, PropertyGroup)):
        return f"<{type(val).__name__} {val.uid}>"
    if isinstance(val, Workspace):
        return "<Workspace in memory>" if not isinstance(val.h5file, (str, bytes)) and not hasattr(val.h5file, "name") else f"<Workspace {getattr(val.h5file, 'name', val.h5file)}>"
    if isinstance(val, uuid.UUID):
        return f"<uuid {val}>"
    if isinstance(val, float) and val != val:
        return "<nan>"
    if isinstance(val, type):
        return f"<type {val.__name__}>"
    if isinstance(val, (str, int, float, bool, type(None))):
        return val if not isinstance(val, bool) else f"<bool {val}>"
    return f"<{type(val).__name__} {val!r}>"


def tree(val):
    """Comparable picture of a nested form / data structure (entities by identifier)."""
    if isinstance(val, dict):
        return {str(k): tree(v) for k, v in val.items()}
    if isinstance(val, (list, tuple)):
        return [tree(v) for v in val]
    return leaf(val)


def copy_tree(val):
    """Structural copy: containers are new, leaves (entities, workspaces, values) are shared."""
    if isinstance(val, dict):
        return {k: copy_tree(v) for k, v in val.items()}
    if isinstance(val, list):
        return [copy_tree(v) for v in val]
    return val


def verdict(call):
    try:
        call()
    except Exception as err:  # pylint: disable=broad-except
        return type(err).__name__, str(err)[:160]
    return "accept", ""


class _active:
    """The workspace open (read-only unless already open) for the duration of a block, then back as it was."""

    def __init__(self, ws):
        self.ws, self.opened = ws, False

    def __enter__(self):
        if not self.ws._geoh5:  # pylint: disable=protected-access
            self.ws.open(mode="r")
            self.opened = True
        return self.ws

    def __exit__(self, *exc):
        if self.opened:
            self.ws.close()
        return False


def first_diff(a, b, path=""):
    if isinstance(a, dict) and isinstance(b, dict):
        for k in sorted(set(a) | set(b)):
            if k not in a or k not in b:
                return f"{path}/{k}: {'missing' if k not in a else a[k]!r} -> {'missing' if k not in b else b[k]!r}"
            d = first_diff(a[k], b[k], f"{path}/{k}")
            if d:
                return d
        return None
    if a != b:
        return f"{path}: {a!r} -> {b!r}"
    return None


# ================================================================================================ InputFile
IF_KINDS = {"set": 16, "set_all": 6, "validate": 6, "validate_data": 5, "ws_close": 2, "gc": 2, "ws_mutate": 3}
SWITCH_KEYS = ["i_opt", "dat", "pg", "dep", "g1", "g2", "one_a", "one_b"]


class InputFileScenario(BaseScenario):
    prop = "C15"

    def __init__(self):
        self.expected_probes = ["set_accepted", "set_rejected", "set_all_accepted", "set_all_rejected", "good_after_bad", "none_value", "none_allowed", "none_refused", "switch_changed",
                                "parent_changed", "one_of_all_none", "ws_closed_validation", "twin_unbuildable", "is_value_toggle"]
        self.rule = ("one evaluation = one seeded history of validation calls (set_data_value, data = {...}, validators.validate, validators.validate_data) with valid "
                     "and invalid values on ONE InputFile over a ui.json whose switches (optional/enabled, group/groupOptional, dependency/dependencyType, isValue, parent, "
                     "dataGroupType, one_of) are drawn per run; every call is also made on a fresh InputFile built from the aged one's current form: verdicts (accept / "
                     "exception class) must agree, and after a rejection data and ui_json equal their state before the call. distinct = distinct abstract trace; "
                     "non-trivial = >= 1 accepted call after >= 1 rejected call on the same object.")
        self.assumptions = ["the fresh twin is built from a structural copy of the aged InputFile's current ui_json (leaves shared) and the run's custom validations",
                            "the verdict is accept / reject; which exception class reports a rejection is not compared"]

    def make_config(self, rng):
        switches = {"i_opt_enabled": rng.random() < 0.5, "dat_optional": rng.random() < 0.6, "dat_enabled": rng.random() < 0.6, "pg_enabled": rng.random() < 0.5,
                    "flag": rng.random() < 0.5, "dep_type": rng.choice(["enabled", "disabled"]), "dep_optional": rng.random() < 0.4, "dep_enabled": rng.random() < 0.5,
                    "dep_on_optional": rng.random() < 0.3, "group_enabled": rng.random() < 0.5, "g2_optional": rng.random() < 0.5, "g2_enabled": rng.random() < 0.5,
                    "g2_dependency": rng.random() < 0.45, "one_a_enabled": rng.random() < 0.6, "one_b_enabled": rng.random() < 0.6, "update_enabled": rng.random() < 0.8, "one_open": rng.random() < 0.5,
                    "g2_dep_type": rng.choice(["enabled", "disabled"]), "g2_both": rng.random() < 0.6}
        include = sorted(k for k in ["s", "i_opt", "f", "flag", "choice", "obj", "dat", "pg", "dv", "dep", "g1", "g2", "one", "obj2"] if rng.random() < 0.7)
        switches["obj2_enabled"] = rng.random() < 0.5
        return {"gc": rng.choices(["none", "op"], [5, 5])[0], "gc_density": 0.3, "h5repack": "absent", "n_ops": rng.choice([4, 8, 12, 20]), "switches": switches,
                "include": include, "promotion": rng.random() < 0.85}

    def simplify_config(self, cfg):
        out = []
        if cfg.get("gc") != "none":
            out.append({**cfg, "gc": "none"})
        for key in cfg["include"]:
            if len(cfg["include"]) > 1:
                out.append({**cfg, "include": [k for k in cfg["include"] if k != key]})
        return out

    # ---- fixtures
    def build_ws(self, sim, r):
        from geoh5py import Workspace
        from geoh5py.objects import Curve, Points

        ws = Workspace.create(sim.path("v.geoh5"))
        env = {"ws": ws}
        verts = np.c_[np.arange(5.0), np.zeros(5), np.zeros(5)]
        pa = Points.create(ws, vertices=verts, name="A")
        a1, a2, a3 = pa.add_data({"a1": {"values": np.arange(5.0)}, "a2": {"values": np.arange(5.0) * 2}, "a3": {"values": np.arange(5, dtype="int32")}})
        pb = Points.create(ws, vertices=verts + 1, name="B")
        b1 = pb.add_data({"b1": {"values": np.arange(5.0)}})
        cu = Curve.create(ws, vertices=verts, name="C")
        pg_a = pa.find_or_create_property_group(name="pgA", property_group_type="Multi-element", properties=[a1.uid, a2.uid])
        pg_v = pa.find_or_create_property_group(name="pgV", property_group_type="3D vector", properties=[a1.uid, a2.uid])
        pg_b = pb.find_or_create_property_group(name="pgB", property_group_type="Multi-element", properties=[b1.uid])
        env["ws2"] = Workspace()      # another (in-memory) workspace a caller may try to switch the form to
        env.update({"A": pa, "B": pb, "C": cu, "a1": a1, "a2": a2, "a3": a3, "b1": b1, "pgA": pg_a, "pgV": pg_v, "pgB": pg_b,
                    "ghost": uuid.UUID(int=r.getrandbits(128), version=4)})
        return env

    def build_form(self, env, cfg):
        from geoh5py.ui_json.constants import default_ui_json

        sw, inc = cfg["switches"], cfg["include"]
        ui = deepcopy(default_ui_json)
        ui["geoh5"] = env["ws"]
        custom = {}
        if "s" in inc:
            ui["s"] = {"label": "s", "value": "abc"}
        if "i_opt" in inc:
            ui["i_opt"] = {"label": "i", "value": 3, "optional": True, "enabled": sw["i_opt_enabled"]}
        if "f" in inc:
            ui["f"] = {"label": "f", "value": 1.5}
        if "flag" in inc or "dep" in inc or ("g2" in inc and sw["g2_dependency"]):
            ui["flag"] = {"label": "flag", "value": sw["flag"]}
            if sw["dep_on_optional"]:
                ui["flag"].update({"optional": True, "enabled": sw["flag"]})
        if "choice" in inc:
            ui["choice"] = {"label": "c", "value": "a", "choiceList": ["a", "b", "c"]}
        if "obj" in inc or "dat" in inc or "pg" in inc or "dv" in inc:
            ui["obj"] = {"label": "o", "value": env["A"].uid, "meshType": [str(env["A"].entity_type.uid)]}
        if "obj2" in inc:
            # a second entity selector with its own None rule (optional), next to the required one
            ui["obj2"] = {"label": "o2", "value": env["B"].uid, "meshType": [str(env["B"].entity_type.uid)], "optional": True, "enabled": sw.get("obj2_enabled", True)}
        if "dat" in inc:
            ui["dat"] = {"label": "d", "value": env["a1"].uid, "parent": "obj", "association": "Vertex", "dataType": "Float"}
            if sw["dat_optional"]:
                ui["dat"].update({"optional": True, "enabled": sw["dat_enabled"]})
        if "pg" in inc:
            ui["pg"] = {"label": "pg", "value": env["pgA"].uid, "parent": "obj", "association": "Vertex", "dataType": "Float", "dataGroupType": "Multi-element",
                        "optional": True, "enabled": sw["pg_enabled"]}
        if "dv" in inc:
            ui["dv"] = {"label": "dv", "value": 1.0, "isValue": True, "property": None, "parent": "obj", "association": "Vertex", "dataType": "Float"}
        if "dep" in inc:
            ui["dep"] = {"label": "dep", "value": 2.0, "dependency": "flag", "dependencyType": sw["dep_type"]}
            if sw["dep_optional"]:
                ui["dep"].update({"optional": True, "enabled": sw["dep_enabled"]})
        if "g1" in inc or "g2" in inc:
            ui["g1"] = {"label": "g1", "value": 1, "group": "grp", "groupOptional": True, "enabled": sw["group_enabled"]}
        if "g2" in inc:
            ui["g2"] = {"label": "g2", "value": 2, "group": "grp"}
            if sw["g2_dependency"]:
                ui["g2"].update({"dependency": "flag", "dependencyType": sw.get("g2_dep_type", "enabled")})
            if sw["g2_optional"] and (sw.get("g2_both") or not sw["g2_dependency"]):
                ui["g2"].update({"optional": True, "enabled": sw["g2_enabled"]})
        if "one" in inc:
            ui["one_a"] = {"label": "one_a", "value": "x", "optional": True, "enabled": sw["one_a_enabled"]}
            ui["one_b"] = {"label": "one_b", "value": "y", "optional": True, "enabled": sw["one_b_enabled"]}
            custom = {"one_a": {"one_of": "pair"}, "one_b": {"one_of": "pair"}}
            if sw.get("one_open"):
                # the caller's own rules let each member be None; the one_of rule is then the only guard
                for rule in custom.values():
                    rule.update({"optional": True, "types": [str, type(None)]})
        return ui, custom

    @staticmethod
    def mutate_ws(sim, env, r):
        ws = env["ws"]
        opened = False
        if not ws._geoh5:  # pylint: disable=protected-access
            ws.open(mode="r+")
            opened = True
        try:
            if "a_new" not in env or r.random() < 0.6:
                n = len([k for k in env if k.startswith("a_new")])
                new = env["A"].add_data({f"a_new{n}": {"values": np.arange(5.0) + n}})
                env[f"a_new{n}" if n else "a_new"] = new
                env["a_new"] = new
                sim.probe("parent_gained_child")
                return "ok:gain"
            gone = env.pop("a_new")
            env["a_gone"] = gone.uid
            ws.remove_entity(gone)
            del gone
            sim.probe("parent_lost_child")
            return "ok:loss"
        finally:
            if opened:
                ws.close()

    @staticmethod
    def domain(key, env, r):
        """Candidate values for a parameter: valid and invalid ones mixed."""
        pools = {
            "s": ["xyz", "", 5, None, 1.5],
            "i_opt": [7, -2, None, "7", 2.5],
            "f": [2.5, -1.0, "a", None, 3],
            "flag": [True, False, "yes", None, 1],
            "choice": ["a", "b", "c", "z", 3, None],
            "obj": [env["A"], env["B"], env["A"].uid, env["B"].uid, env["ghost"], "not-a-uuid", 5, None, env["C"]],
            "obj2": [env["A"], env["B"], env["B"].uid, env["ghost"], "not-a-uuid", None, None],
            "dat": [env["a1"], env["a2"], env["b1"], env["a1"].uid, env["b1"].uid, None, env["ghost"], "zzz", 4.0]
            + ([env["a_new"], env["a_new"].uid, env["a_new"]] if "a_new" in env else []) + ([env["a_gone"], env["a_gone"]] if "a_gone" in env else []),
            "pg": [env["pgA"], env["pgV"], env["pgB"], env["pgA"].uid, None, env["a1"]],
            "dv": [2.5, 3, env["a1"], env["b1"], env["a2"].uid, "str", None],
            "dep": [4.5, None, "q", 3],
            "g1": [5, None, "w", 2.5],
            "g2": [6, None, "w"],
            "one_a": ["p", None, 5],
            "one_b": ["q", None, 5],
            "geoh5": [env["ws"], env["ws2"], env["ws2"], None, "not a workspace"],
            "title": ["t2", None, 5],
            "run_command": ["cmd", None, 3],
            "conda_environment_boolean": [True, False, "no"],
        }
        pool = pools[key]
        return pool[r.randrange(len(pool))]

    def make_file(self, ui, custom, cfg):
        from geoh5py.ui_json import InputFile

        return InputFile(ui_json=ui, validations=copy_tree(custom) if custom else None, validation_options={"update_enabled": cfg["switches"]["update_enabled"]},
                         promotion=cfg["promotion"])

    # ------------------------------------------------------------------------------------------
    def execute(self, seed, program=None):  # pylint: disable=too-many-locals,too-many-branches,too-many-statements
        from geoh5py.ui_json.utils import requires_value

        rng = random.Random(H(seed, "program"))
        if program is None:
            cfg, ops = self.make_config(rng), None
        else:
            cfg, ops = program["config"], program["ops"]
        sim = Sim(seed, cfg)
        executed, trace = [], []
        status, violation = "ok", None
        n_rej = n_acc_after_rej = 0
        env = None
        with sim.running():
            try:
                sim.begin_op(H(seed, "ids"))
                env = self.build_ws(sim, random.Random(H(seed, "build")))
                ui, custom = self.build_form(env, cfg)
                sim.end_op()
                aged = self.make_file(copy_tree(ui), custom, cfg)
                first = verdict(lambda: aged.data)
                if first[0] != "accept":
                    # the initial form is refused by a fresh object: nothing to age
                    sim.probe("initial_form_refused")
                    n_ops = 0
                else:
                    n_ops = len(ops) if ops is not None else cfg["n_ops"]
                keys = [k for k in aged.ui_json if k in IF_DOMAIN_KEYS] if first[0] == "accept" else []
                for i in range(n_ops):
                    if ops is not None:
                        op = ops[i]
                    else:
                        kinds = sorted(IF_KINDS)
                        op = {"id": i, "k": rng.choices(kinds, [IF_KINDS[k] for k in kinds])[0], "sub": rng.getrandbits(64)}
                    executed.append(op)
                    kind = op["k"]
                    r = random.Random(H(op["sub"], "args"))
                    sim.begin_op(op["sub"])
                    try:
                        if kind == "gc":
                            sim.collect("event")
                            sim.fault("ev:gc")
                            outcome = "ok"
                        elif kind == "ws_close":
                            env["ws"].close()
                            sim.fault("ev:ws_close")
                            outcome = "ok"
                        elif kind == "ws_mutate":
                            # the world the forms refer to changes between validation calls: object A gains a data set, or loses one
                            outcome = self.mutate_ws(sim, env, r)
                        else:
                            if not env["ws"]._geoh5:  # pylint: disable=protected-access
                                sim.probe("ws_closed_validation")
                            outcome = self.step(sim, aged, env, cfg, custom, keys, kind, r, requires_value)
                    finally:
                        sim.end_op()
                    sim.drain_warnings()
                    if outcome.startswith("rejected"):
                        n_rej += 1
                    elif outcome.startswith("accepted") and n_rej:
                        n_acc_after_rej += 1
                        sim.probe("good_after_bad")
                    trace.append(f"{kind}:{outcome}")
                    sim.record("op", op["id"], kind, outcome)
                    if sim.gc_mode == "op" and random.Random(H(op["sub"], "gcop")).random() < sim.gc_density:
                        sim.collect("op")
            except Violation as vio:
                violation = {"prop": vio.prop, "tag": vio.tag, "detail": vio.detail, "discr": vio.discr, "event": sim.events}
                sim.record("violation", vio.prop, vio.tag, vio.discr)
                status = "violation" if vio.prop == self.prop else "foreign"
            stats = {"events": sim.events, "ops": len(executed), "faults": dict(sim.faults), "probes": dict(sim.probes), "oracle_evals": dict(sim.oracle_evals),
                     "trace_hash": rawgeoh5.sha([cfg["include"], trace]), "nontrivial": n_acc_after_rej >= 1, "states": [], "clock_lo": sim.clock.lo,
                     "clock_hi": sim.clock.hi, "cell": "inputfile"}
            digest = sim.digest()
            try:
                if env is not None and env["ws"]._geoh5:  # pylint: disable=protected-access
                    env["ws"].close()
            except Exception:  # pylint: disable=broad-except
                pass
        return {"status": status, "violation": violation, "suspect": None, "program": {"config": cfg, "ops": executed}, "stats": stats, "digest": digest}

    def step(self, sim, aged, env, cfg, custom, keys, kind, r, requires_value):  # pylint: disable=too-many-locals,too-many-branches
        sim.oracle("fresh_twin_verdict")
        # the fresh twin for the CURRENT form.  For whole-data calls the twin has made NO validation call before (its
        # data is not even flattened from the form); for single-value calls it needs its data, i.e. one construction pass.
        twin_holder = {}

        def build():
            twin_holder["t"] = self.make_file(copy_tree(aged.ui_json), custom, cfg)
            if kind in ("set", "validate"):
                twin_holder["t"].data  # pylint: disable=pointless-statement

        built = verdict(build)
        if built[0] != "accept":
            # the aged object's current form (with its data) is refused by a fresh object: an earlier verdict difference,
            # already reported where it happened, a known finding, or a legal but inconsistent state (parent changed, child
            # kept).  Whole-data and validator calls have nothing to compare against; a single-value assignment is still
            # compared with the second entry point below.
            sim.probe("twin_unbuildable")
            if kind != "set":
                return "no_twin:" + built[0]
        twin = twin_holder["t"] if built[0] == "accept" else None
        key = keys[r.randrange(len(keys))]
        if kind in ("set", "validate"):
            value = self.domain(key, env, r)
            if value is None:
                sim.probe("none_value")
            if kind == "set":
                call_a = lambda: aged.set_data_value(key, value)  # noqa: E731
                call_t = (lambda: twin.set_data_value(key, value)) if twin is not None else None  # noqa: E731
            else:
                call_a = lambda: aged.validators.validate(key, value)  # noqa: E731
                call_t = lambda: twin.validators.validate(key, value)  # noqa: E731
            what = f"{'set_data_value' if kind == 'set' else 'validators.validate'}({key!r}, {leaf(value)!r})"
            changed = [key]
        else:
            data_a = dict(aged.data)
            changed = []
            for _ in range(r.randint(0, 3)):
                k2 = keys[r.randrange(len(keys))]
                if k2 == "geoh5":
                    continue     # (switching the workspace is refused by design once one is set: judged in single-value calls only)
                data_a[k2] = self.domain(k2, env, r)
                changed.append(k2)
            if "one_a" in data_a and r.random() < 0.3:
                data_a["one_a"] = data_a["one_b"] = None
                changed += ["one_a", "one_b"]
            if data_a.get("one_a", 1) is None and data_a.get("one_b", 1) is None:
                sim.probe("one_of_all_none")
            data_t = dict(data_a)
            if kind == "set_all":
                def call_a():
                    aged.data = data_a

                def call_t():
                    twin.data = data_t
            else:
                call_a = lambda: aged.validators.validate_data(data_a)  # noqa: E731
                call_t = lambda: twin.validators.validate_data(data_t)  # noqa: E731
            what = f"{'data = ' if kind == 'set_all' else 'validators.validate_data'}(current data with {[(k, leaf(data_a[k])) for k in changed]})"
        before = {"data": tree(aged.data), "ui_json": tree(aged.ui_json)}
        judged_keys = changed if kind in ("set", "validate") else list(aged.ui_json)
        stale = sorted(k for k in judged_keys if k in aged.ui_json and isinstance(aged.ui_json[k], dict) and "optional" in (aged.validations or {}).get(k, {})
                       and aged.validations[k]["optional"] == requires_value(aged.ui_json, k))
        typeless = [k for k in judged_keys if isinstance(aged.ui_json.get(k), dict) and aged.ui_json[k].get("value") is None
                    and not any(m in aged.ui_json[k] for m in ("choiceList", "meshType", "parent", "isValue", "fileType", "groupType"))]
        ver_v = None
        sweep = kind == "set" and r.random() < 0.35
        if kind == "set":
            # second entry point for the same question: a fresh InputValidation on the current form, asked directly
            # (rules of the key, the parent named by the rule resolved from the current data, one_of left to whole-data calls)
            data_now = dict(aged.data)

            ref_holder = {}

            def build_ref():
                ref_holder["r"] = self.make_file(copy_tree(aged_form), custom, cfg)

            def call_v():
                from uuid import UUID

                ref = ref_holder["r"]
                rules = (ref.validations or {}).get(key)
                if rules is None:
                    return
                rules = dict(rules)
                if "association" in rules:
                    parent = data_now[rules["association"]]
                    if isinstance(parent, UUID):
                        parent = env["ws"].get_entity(parent)[0]
                    rules["association"] = parent
                rules.pop("one_of", None)
                ref.validators.validate(key, value, rules)

            aged_form = copy_tree(aged.ui_json)
            # (same workspace state as the aged call: set_data_value does not open a closed workspace itself)
            if verdict(build_ref)[0] == "accept":
                ver_v = verdict(call_v)
        ver_t = verdict(call_t) if call_t is not None else None
        ver_a = verdict(call_a)
        if kind == "set" and key == "geoh5":
            # switching an InputFile to another workspace is refused by design once one is set ("create a new InputFile"): a rule about
            # the object's history, not about the value -- only the clause "a rejected value leaves data and form unchanged" is judged
            ver_v = None
            ver_t = ver_a
        if ver_v is not None and (ver_a[0] == "accept") != (ver_v[0] == "accept") and not (typeless and "TypeValidationError" in (ver_a[0], ver_v[0])):
            raise Violation("C15", "verdict_differs", f"{what}: the aged object says {ver_a[0]} ({ver_a[1]}); a fresh InputValidation on the same form, asked directly for "
                            f"this key and value, says {ver_v[0]} ({ver_v[1]})",
                            {"api": kind, "via": "validators", "aged": "accept" if ver_a[0] == "accept" else "reject", "stale_switch": bool(stale), "one_of": False})
        if ver_v is not None and value is None and key in ("i_opt", "dat", "pg", "dep", "g1", "g2", "s", "f", "choice", "obj", "obj2") and key in aged_form:
            # reference model for the switch hierarchy that decides whether None is allowed (fresh object: no staleness involved)
            sim.oracle("none_rule_model")
            needs = ref_requires(aged_form, key)
            sim.probe("none_allowed" if not needs else "none_refused")
            if needs and ver_v[0] == "accept":
                raise Violation("C15", "none_accepted", f"{what}: a fresh validation accepts None although the form's switches require a value "
                                f"({ {m: aged_form[key].get(m) for m in ('optional', 'enabled', 'group', 'dependency', 'dependencyType') if m in aged_form[key]} })", {"key": key})
            if not needs and ver_v[0] != "accept":
                raise Violation("C15", "none_refused", f"{what}: a fresh validation refuses None ({ver_v[0]}) although the form's switches require no value "
                                f"({ {m: aged_form[key].get(m) for m in ('optional', 'enabled', 'group', 'dependency', 'dependencyType') if m in aged_form[key]} })", {"key": key})
        if ver_v is not None and sweep:
            # the same model asked for every form of the current switch state (each history reaches other combinations)
            sim.probe("none_sweep")
            for k2 in ("i_opt", "dat", "pg", "dep", "g1", "g2", "s", "f", "choice", "obj", "obj2"):
                rules2 = (ref_holder["r"].validations or {}).get(k2)
                if k2 not in aged_form or rules2 is None:
                    continue
                rules2 = {m: v for m, v in rules2.items() if m in ("optional", "required", "types")}
                got = verdict(lambda k2=k2, rules2=rules2: ref_holder["r"].validators.validate(k2, None, rules2))
                needs = ref_requires(aged_form, k2)
                if needs == (got[0] == "accept"):
                    sw = {m: aged_form[k2].get(m) for m in ("optional", "enabled", "group", "dependency", "dependencyType") if m in aged_form[k2]}
                    raise Violation("C15", "none_accepted" if needs else "none_refused", f"validate({k2!r}, None) on a fresh validation of the current form says {got[0]} although the "
                                    f"form's switches {'require a' if needs else 'require no'} value ({sw})", {"key": k2})
        if ver_t is None:
            ver_t = ver_v if ver_v is not None else ver_a     # nothing fresh to compare with: only the rejection check below applies
        if "obj" in changed:
            sim.probe("parent_changed")
        # reference model for the one rule that reads the world: membership of the referenced parent object.  Both the aged and
        # the fresh object would share a process-wide cache inside a validator; the live tree does not.
        if kind in ("set", "validate") and key in ("dat", "dv", "pg") and "obj" in aged.ui_json and kind == "set":
            from uuid import UUID

            from geoh5py.groups import PropertyGroup
            from geoh5py.shared import Entity

            val_uid = value.uid if isinstance(value, (Entity, PropertyGroup)) else value if isinstance(value, UUID) else None
            parent = data_now.get("obj") if ver_v is not None else None
            if isinstance(parent, UUID):
                parent = None
            if val_uid is not None and isinstance(parent, Entity) and env["ws"]._geoh5:  # pylint: disable=protected-access
                members = {c.uid for c in parent.children} | {pg.uid for pg in (getattr(parent, "property_groups", None) or [])}
                sim.oracle("membership_model")
                if val_uid in members and ver_a[0] == "AssociationValidationError":
                    raise Violation("C15", "member_refused", f"{what}: refused as not belonging to {leaf(parent)}, whose children include it", {"api": kind, "key": key})
                if val_uid not in members and ver_a[0] == "accept" and key != "pg":
                    raise Violation("C15", "non_member_accepted", f"{what}: accepted although {leaf(parent)} has no such child", {"api": kind, "key": key})
        # a plain form whose current value is None declares no type (a fresh object falls back to str, the aged one
        # remembers the type of the value it was built with): type verdicts on such a key are not comparable
        if typeless and "TypeValidationError" in (ver_a[0], ver_t[0]) and (ver_a[0] == "accept") != (ver_t[0] == "accept"):
            sim.probe("typeless_form_not_judged")
            return "not_judged"
        # the verdict is accept / reject; which exception class reports a rejection is not part of it
        if (ver_a[0] == "accept") != (ver_t[0] == "accept"):
            raise Violation("C15", "verdict_differs", f"{what}: the aged object says {ver_a[0]} ({ver_a[1]}), a fresh one on the same form says {ver_t[0]} ({ver_t[1]})",
                            {"api": kind, "aged": "accept" if ver_a[0] == "accept" else "reject", "stale_switch": bool(stale),
                             "one_of": ver_t[0] == "AtLeastOneValidationError" or ver_a[0] == "AtLeastOneValidationError"})
        if ver_a[0] != "accept" or kind in ("validate", "validate_data"):
            after = {"data": tree(aged.data), "ui_json": tree(aged.ui_json)}
            diff = first_diff(before, after)
            if diff:
                raise Violation("C15", "rejection_changed_state" if ver_a[0] != "accept" else "validation_changed_state",
                                f"{what} -> {ver_a[0]}, yet the stored state changed: {diff}", {"api": kind, "where": diff.split(":")[0].split("/")[1]})
        if ver_a[0] == "accept":
            if kind in ("set", "set_all"):
                sim.probe("set_accepted" if kind == "set" else "set_all_accepted")
                if any(k in ("flag", "g1", "i_opt", "dep", "g2") for k in changed):
                    sim.probe("switch_changed")
                if "dv" in changed:
                    sim.probe("is_value_toggle")
            return "accepted"
        sim.probe("set_rejected" if kind == "set" else "set_all_rejected" if kind == "set_all" else "validate_rejected")
        return "rejected:" + ver_a[0]


def ref_requires(ui, key):
    """Reference model of the documented switch hierarchy (ui_json/utils.requires_value docstring): a group-optional
    group that is off needs nothing; otherwise a dependency decides (an active one defers to the parameter's own
    optional switch), otherwise the optional switch; a plain parameter needs a value."""
    form = ui[key]
    if not (isinstance(form, dict) and "label" in form and "value" in form):
        return True

    def own():
        return bool(form.get("enabled", True)) if "optional" in form else True

    if "group" in form:
        heads = [f for f in ui.values() if isinstance(f, dict) and f.get("group") == form["group"] and "groupOptional" in f]
        if heads and heads[0]["groupOptional"] and not heads[0].get("enabled", True):
            return False
    if "dependency" in form:
        other = ui[form["dependency"]]
        state = bool(other.get("enabled" if other.get("optional", False) else "value", True))
        active = state if form.get("dependencyType", "enabled") == "enabled" else not state
        return own() if active else False
    return own()


IF_DOMAIN_KEYS = {"geoh5", "obj2", "s", "i_opt", "f", "flag", "choice", "obj", "dat", "pg", "dv", "dep", "g1", "g2", "one_a", "one_b", "title", "run_command", "conda_environment_boolean"}


# ================================================================================================ Parameters / forms / pools
P_KINDS = {"set": 14, "validate": 4, "register": 8, "form_validate": 4, "pool": 8, "uijson": 6, "gc": 2}


def param_specs():
    from geoh5py.ui_json import forms as F
    from geoh5py.ui_json import parameters as P

    return {
        "str": (lambda: P.StringParameter("p"), ["a", "", "bc"], [1, 2.5, ["x"]]),
        "int": (lambda: P.IntegerParameter("p"), [1, -3, 0], ["1", 2.5, [1]]),
        "float": (lambda: P.FloatParameter("p"), [1.5, -2.0], [1, "x"]),
        "num": (lambda: P.NumericParameter("p"), [1, 2.5], ["x", [1]]),
        "bool": (lambda: P.BoolParameter("p"), [True, False], [1, "t"]),
        "strlist": (lambda: P.StringListParameter("p"), [["a", "b"], "a"], [1, 2.5]),
        "choice": (lambda: P.ValueRestrictedParameter("p", ["a", "b"]), ["a", "b"], ["z", 1]),
        "typed": (lambda: P.TypeRestrictedParameter("p", [int, str]), [1, "s"], [2.5, [1]]),
        "f_str": (lambda: F.StringFormParameter("f", value="a", label="lab"), ["b", ""], [1, 2.5]),
        "f_int": (lambda: F.IntegerFormParameter("f", value=1, label="lab"), [2, -1], ["x", 2.5]),
        "f_float": (lambda: F.FloatFormParameter("f", value=1.0, label="lab"), [2.5], ["x", 1]),
        "f_bool": (lambda: F.BoolFormParameter("f", value=True, label="lab"), [False, True], ["x", 1]),
        "f_choice": (lambda: F.ChoiceStringFormParameter("f", ["a", "b"], value="a", label="lab"), ["b", "a"], ["z", 1]),
        "f_bare": (lambda: F.StringFormParameter("f", value="a"), ["b"], [1]),      # no label: form validation has something to refuse
    }


MEMBERS = {"label": (["L2", ""], [1, 2.5]), "enabled": ([True, False], ["x", 1]), "optional": ([True, False], ["x", 3]), "main": ([True, False], ["no"]),
           "tooltip": (["tip"], [1]), "group": (["grp", ""], [1]), "group_optional": ([True, False], ["x"]), "dependency": (["other"], [1]),
           "dependency_type": (["enabled", "disabled"], ["sometimes", 1]), "group_dependency_type": (["enabled", "disabled"], ["never"])}


class ParamScenario(BaseScenario):
    prop = "C15"

    def __init__(self):
        self.expected_probes = ["param_rejected", "param_accepted_after_rejected", "form_member_rejected", "form_validate_rejected", "pool_two_errors", "pool_one_error",
                                "pool_good_after_bad", "uijson_rejected", "uijson_two_errors", "uijson_good_after_bad"]
        self.rule = ("one evaluation = one seeded history of assignments / validations (valid and invalid values, PRNG order) on ONE long-lived object of the Parameter "
                     "family, the FormParameter family, an EnforcerPool or a UIJson; every call is also made on a freshly constructed object brought to the same accepted "
                     "state: verdicts must agree, and after a rejection the stored value / form equals the one before the call. distinct = distinct abstract trace; "
                     "non-trivial = >= 1 accepted call after >= 1 rejected call.")
        self.assumptions = ["fresh twins are built by the same constructor call and the accepted assignments replayed", "the verdict is accept / reject"]

    def make_config(self, rng):
        return {"gc": rng.choice(["none", "op"]), "gc_density": 0.3, "h5repack": "absent", "n_ops": rng.choice([4, 8, 12, 20]),
                "target": rng.choices(["param", "form", "pool", "uijson"], [4, 4, 3, 3])[0], "spec": rng.choice(sorted(param_specs()))}

    def simplify_config(self, cfg):
        return [{**cfg, "gc": "none"}] if cfg.get("gc") != "none" else []

    # ------------------------------------------------------------------------------------------
    def execute(self, seed, program=None):  # pylint: disable=too-many-locals,too-many-branches,too-many-statements
        rng = random.Random(H(seed, "program"))
        if program is None:
            cfg, ops = self.make_config(rng), None
        else:
            cfg, ops = program["config"], program["ops"]
        sim = Sim(seed, cfg)
        executed, trace = [], []
        status, violation = "ok", None
        n_rej = n_good_after = 0
        ctx = {}
        with sim.running():
            try:
                sim.begin_op(H(seed, "ids"))
                handler = getattr(self, "run_" + cfg["target"])
                handler(sim, ctx, cfg, None, None, init=True)
                sim.end_op()
                n_ops = len(ops) if ops is not None else cfg["n_ops"]
                for i in range(n_ops):
                    if ops is not None:
                        op = ops[i]
                    else:
                        op = {"id": i, "k": "gc" if rng.random() < 0.1 else "call", "sub": rng.getrandbits(64)}
                    executed.append(op)
                    r = random.Random(H(op["sub"], "args"))
                    sim.begin_op(op["sub"])
                    try:
                        if op["k"] == "gc":
                            sim.collect("event")
                            sim.fault("ev:gc")
                            outcome = "gc"
                        else:
                            outcome = handler(sim, ctx, cfg, r, n_rej)
                    finally:
                        sim.end_op()
                    sim.drain_warnings()
                    if outcome.startswith("rejected"):
                        n_rej += 1
                    elif outcome.startswith("accepted") and n_rej:
                        n_good_after += 1
                    trace.append(outcome)
                    sim.record("op", op["id"], outcome)
                    if sim.gc_mode == "op" and random.Random(H(op["sub"], "gcop")).random() < sim.gc_density:
                        sim.collect("op")
            except Violation as vio:
                violation = {"prop": vio.prop, "tag": vio.tag, "detail": vio.detail, "discr": vio.discr, "event": sim.events}
                sim.record("violation", vio.prop, vio.tag, vio.discr)
                status = "violation" if vio.prop == self.prop else "foreign"
            stats = {"events": sim.events, "ops": len(executed), "faults": dict(sim.faults), "probes": dict(sim.probes), "oracle_evals": dict(sim.oracle_evals),
                     "trace_hash": rawgeoh5.sha([cfg["target"], cfg["spec"], trace]), "nontrivial": n_good_after >= 1, "states": [], "clock_lo": sim.clock.lo,
                     "clock_hi": sim.clock.hi, "cell": cfg["target"]}
            digest = sim.digest()
            ws = ctx.get("ws")
            try:
                if ws is not None and ws._geoh5:  # pylint: disable=protected-access
                    ws.close()
            except Exception:  # pylint: disable=broad-except
                pass
            ctx.clear()
        return {"status": status, "violation": violation, "suspect": None, "program": {"config": cfg, "ops": executed}, "stats": stats, "digest": digest}

    @staticmethod
    def compare(sim, what, ver_a, ver_t, discr):
        sim.oracle("fresh_twin_verdict")
        if (ver_a[0] == "accept") != (ver_t[0] == "accept"):
            raise Violation("C15", "verdict_differs", f"{what}: the aged object says {ver_a[0]} ({ver_a[1]}), a fresh one in the same state says {ver_t[0]} ({ver_t[1]})",
                            {**discr, "aged": "accept" if ver_a[0] == "accept" else "reject"})

    # ---- Parameter family
    def run_param(self, sim, ctx, cfg, r, n_rej, init=False):
        specs = param_specs()
        name = cfg["spec"] if not cfg["spec"].startswith("f_") else "str"
        ctor, good, bad = specs[name]
        if init:
            ctx.update({"obj": ctor(), "accepted": None})
            return "init"
        aged = ctx["obj"]
        twin = ctor()
        if ctx["accepted"] is not None:
            twin.value = ctx["accepted"]
        discr = {"target": "Parameter", "cls": type(aged).__name__}
        if r.random() < 0.2:
            ver_t, ver_a = verdict(twin.validate), verdict(aged.validate)
            self.compare(sim, f"{type(aged).__name__}.validate() holding {aged.value!r}", ver_a, ver_t, {**discr, "api": "validate"})
            return ("accepted" if ver_a[0] == "accept" else "rejected") + ":validate"
        value = r.choice(good) if r.random() < 0.55 else r.choice(bad)
        before = deepcopy(aged.value)

        def setter(obj):
            def call():
                obj.value = value
            return call

        ver_t, ver_a = verdict(setter(twin)), verdict(setter(aged))
        what = f"{type(aged).__name__}.value = {value!r}"
        self.compare(sim, what, ver_a, ver_t, {**discr, "api": "value"})
        if ver_a[0] != "accept":
            sim.probe("param_rejected")
            if tree(aged.value) != tree(before):
                raise Violation("C15", "rejected_value_stored", f"{what} -> {ver_a[0]}, yet the parameter now holds {aged.value!r} (before: {before!r})", {**discr, "api": "value"})
            return "rejected:value"
        ctx["accepted"] = value
        if n_rej:
            sim.probe("param_accepted_after_rejected")
        return "accepted:value"

    # ---- FormParameter family
    def run_form(self, sim, ctx, cfg, r, n_rej, init=False):
        specs = param_specs()
        name = cfg["spec"] if cfg["spec"].startswith("f_") else "f_str"
        ctor, good, bad = specs[name]
        if init:
            ctx.update({"obj": ctor(), "value": None, "members": []})
            return "init"
        aged = ctx["obj"]
        twin = ctor()
        for member, val in ctx["members"]:
            twin.register({member: val})
        if ctx["value"] is not None:
            twin.value = ctx["value"][0]
        discr = {"target": "FormParameter", "cls": type(aged).__name__}
        pick = r.random()
        if pick < 0.2:
            ver_t, ver_a = verdict(twin.validate), verdict(aged.validate)
            self.compare(sim, f"{type(aged).__name__}.validate() with form {aged.form()!r}", ver_a, ver_t, {**discr, "api": "validate"})
            if ver_a[0] != "accept":
                sim.probe("form_validate_rejected")
            return ("accepted" if ver_a[0] == "accept" else "rejected") + ":validate"
        before = tree(aged.form())
        if pick < 0.55:
            value = r.choice(good) if r.random() < 0.55 else r.choice(bad)

            def setter(obj):
                def call():
                    obj.value = value
                return call

            ver_t, ver_a = verdict(setter(twin)), verdict(setter(aged))
            what = f"{type(aged).__name__}.value = {value!r}"
            api = "value"
            if ver_a[0] == "accept":
                ctx["value"] = (value,)
        else:
            member = r.choice(sorted(MEMBERS))
            goods, bads = MEMBERS[member]
            value = r.choice(goods) if r.random() < 0.55 else r.choice(bads)
            how = r.choice(["register", "attr"])
            batch = {member: value}
            if how == "register" and r.random() < 0.4:
                # several members in one call: one bad member refuses the call, and nothing of it may stay
                for extra in r.sample(sorted(MEMBERS), 2):
                    if extra not in batch:
                        g2, b2 = MEMBERS[extra]
                        batch[extra] = r.choice(g2) if r.random() < 0.6 else r.choice(b2)
                if r.random() < 0.5:
                    batch = dict(reversed(list(batch.items())))
                sim.probe("register_several_members")

            def setter(obj):
                def call():
                    if how == "register":
                        obj.register(dict(batch))
                    else:
                        setattr(obj, member, value)
                return call

            ver_t, ver_a = verdict(setter(twin)), verdict(setter(aged))
            what = f"{type(aged).__name__}.{'register(' + repr(batch) + ')' if how == 'register' else member + ' = ' + repr(value)}"
            api = how
            if len(batch) > 1:
                discr = {**discr, "multi": True}
            if ver_a[0] == "accept":
                ctx["members"].extend(batch.items())
            else:
                sim.probe("form_member_rejected")
        self.compare(sim, what, ver_a, ver_t, {**discr, "api": api})
        if ver_a[0] != "accept":
            after = tree(aged.form())
            diff = first_diff(before, after)
            if diff:
                raise Violation("C15", "rejected_value_stored", f"{what} -> {ver_a[0]}, yet the form changed: {diff}", {**discr, "api": api})
            return "rejected:" + api
        return "accepted:" + api

    # ---- EnforcerPool
    def run_pool(self, sim, ctx, cfg, r, n_rej, init=False):
        from geoh5py.shared.utils import SetDict
        from geoh5py.ui_json.enforcers import EnforcerPool

        def ctor():
            return EnforcerPool.from_validations("p", SetDict(type=[int, str], value=[1, 2, "a"]))

        if init:
            ctx.update({"obj": ctor()})
            return "init"
        aged, twin = ctx["obj"], ctor()
        value = r.choice([1, 2, "a", 1, 2, 5, "z", 2.5, [1]])
        ver_t, ver_a = verdict(lambda: twin.enforce(value)), verdict(lambda: aged.enforce(value))
        if ver_t[0] == "AggregateValidationError":
            sim.probe("pool_two_errors")
        elif ver_t[0] != "accept":
            sim.probe("pool_one_error")
        elif n_rej:
            sim.probe("pool_good_after_bad")
        self.compare(sim, f"EnforcerPool(type, value).enforce({value!r})", ver_a, ver_t, {"target": "EnforcerPool", "api": "enforce"})
        return "accepted" if ver_a[0] == "accept" else "rejected:" + ver_a[0]

    # ---- UIJson
    def run_uijson(self, sim, ctx, cfg, r, n_rej, init=False):  # pylint: disable=too-many-locals
        from geoh5py import Workspace
        from geoh5py.objects import Points
        from geoh5py.ui_json import forms as F
        from geoh5py.ui_json import parameters as P
        from geoh5py.ui_json.ui_json import UIJson

        def ctor(state):
            params = {"title": P.StringParameter("title", "T"), "geoh5": P.WorkspaceParameter("geoh5", ctx["ws"]), "run_command": P.StringParameter("run_command", "cmd"),
                      "run_command_boolean": P.BoolParameter("run_command_boolean"), "monitoring_directory": P.StringParameter("monitoring_directory", "m"),
                      "conda_environment": P.StringParameter("conda_environment", "c"), "conda_environment_boolean": P.BoolParameter("conda_environment_boolean"),
                      "workspace": P.StringParameter("workspace", "w"),
                      "obj": F.ObjectFormParameter("obj", [str(ctx["A"].entity_type.uid)], value=state["obj"], label="o"),
                      "dat": F.DataFormParameter("dat", "Float", value=state["dat"], label="d", parent="obj", association="Vertex")}
            return UIJson(params)

        if init:
            ws = Workspace.create(sim.path("u.geoh5"))
            verts = np.c_[np.arange(4.0), np.zeros(4), np.zeros(4)]
            pa, pb, px = (Points.create(ws, vertices=verts, name=n) for n in "ABX")
            a1 = pa.add_data({"a1": {"values": np.arange(4.0)}})
            b1 = pb.add_data({"b1": {"values": np.arange(4.0)}})
            x1 = px.add_data({"x1": {"values": np.arange(4.0)}})
            ctx.update({"ws": ws, "A": pa, "B": pb, "X": px, "a1": a1, "b1": b1, "x1": x1, "state": {"obj": pa, "dat": a1}, "x_removed": False})
            ctx["obj"] = ctor(ctx["state"])
            ws.close()
            return "init"
        aged = ctx["obj"]
        pick = r.random()
        discr = {"target": "UIJson"}
        if pick < 0.5:
            twin = ctor(ctx["state"])
            ver_t, ver_a = verdict(twin.validate), verdict(aged.validate)
            if ver_t[0] == "AggregateValidationError":
                sim.probe("uijson_two_errors")
            elif ver_t[0] != "accept":
                sim.probe("uijson_rejected")
            elif n_rej:
                sim.probe("uijson_good_after_bad")
            self.compare(sim, f"UIJson.validate() with obj={leaf(ctx['state']['obj'])} dat={leaf(ctx['state']['dat'])} (X removed: {ctx['x_removed']})", ver_a, ver_t, {**discr, "api": "validate"})
            return ("accepted" if ver_a[0] == "accept" else "rejected") + ":validate"
        if pick < 0.65 and not ctx["x_removed"]:
            with ctx["ws"].open(mode="r+"):
                ctx["ws"].remove_entity(ctx["ws"].get_entity(ctx["X"].uid)[0])     # this session's object for X
            ctx["x_removed"] = True
            return "x_removed"
        new = {"obj": ctx[r.choice(["A", "B", "X"])], "dat": ctx[r.choice(["a1", "b1", "x1"])]}
        ver_a = verdict(lambda: aged.update(dict(new)))
        if ver_a[0] == "accept":
            ctx["state"] = new
            return "accepted:update"
        # a refused update may have applied some of its values: re-sync by making the state explicit again
        ver_b = verdict(lambda: aged.update(dict(ctx["state"])))
        if ver_b[0] != "accept":
            return "no_resync"
        return "rejected:update"
