"""
The lifecycle machine (C11): for every generated history o_1..o_n, the with-block is aborted at EVERY
point k in 0..n (fault enumeration over crash points), plus the other ways a workspace gets closed
(normal exit, explicit close, double close, helper-induced close).  After each close: no HDF5 handle
stays open, the file is valid and opens again, every completed operation is in it, previously obtained
references give either the right value or the closed-file error, and re-opening restores access.
"""

from __future__ import annotations

import random

import h5py
import numpy as np

from . import compare, rawgeoh5, snapshot
from .kernel import H, Sim, SimAbort, Violation
from .scenarios import BaseScenario
from .snapshot import ustr
from .world import World

EXITS = ["abort", "normal", "close", "double_close", "helper_r", "helper_rplus_from_r", "helper_r_on_closed", "helper_abort_on_closed", "helper_abort_from_r", "save_as"]
OP_KINDS = {"mk_group": 5, "mk_object": 9, "add_data": 10, "add_comment": 2, "add_file": 1, "set_values": 4, "rename": 3, "set_flag": 2,
            "set_meta": 3, "move": 3, "copy": 4, "rm_ws": 4, "pg_add": 3, "pg_new": 1, "gc": 3, "observe": 2, "lookup": 1, "type_edit": 1}
SKIP_GETTERS = {"workspace", "entity_type", "parent", "children", "property_groups", "attribute_map", "concatenator", "comments",
                "visual_parameters", "converter", "value_map", "depths", "from_", "to_", "depth_", "coordinate_reference_system"}


def open_objects() -> int:
    return h5py.h5f.get_obj_count(h5py.h5f.OBJ_ALL, h5py.h5f.OBJ_ALL)


class LifecycleScenario(BaseScenario):
    prop = "C11"
    level = "fault_enumeration"

    def __init__(self):
        self.expected_probes = ["abort_at_0", "abort_mid", "abort_at_end", "exit_normal", "exit_close", "exit_double_close", "exit_helper_abort", "exit_helper_r", "exit_save_as", "in_memory_workspace",
                                "stale_getter_closed_error", "stale_getter_value", "stale_setter_refused", "reopen_same_object"]
        self.rule = ("one evaluation = one (history, crash point, exit kind) triple. For each seeded history of n <= 12 world-machine operations inside "
                     "`with Workspace(...)`, the block is aborted by an exception after o_k for EVERY k in 0..n (exhaustive over crash points of that history), "
                     "and additionally left normally, closed explicitly, closed twice, closed by fetch_active_workspace re-opening it in another mode, and moved to a copy with save_as. "
                     "distinct = distinct (abstract trace of the prefix, exit kind); non-trivial = prefix with >= 2 successful mutations.")
        self.assumptions = ["process kills, power loss and I/O failures inside an operation are out of scope by the property's own text",
                            "h5py/HDF5/numpy and sim/rawgeoh5.py are trusted"]

    def make_config(self, rng):
        return {"version": rng.choices([2.1, 2.0, 1.0], [6, 3, 1])[0], "start": rng.choices(["disk", "bytesio"], [4, 1])[0], "two_ws": False, "concat_seed": rng.random() < 0.35,
                "gc": rng.choices(["none", "op", "io"], [3, 4, 3])[0], "gc_density": rng.choice([0.15, 0.4]), "keep_prob": 1.0,
                "h5repack": rng.choices(["absent", "ok", "fail"], [3, 2, 1])[0], "n_ops": rng.choice([2, 4, 6, 9, 12]), "tidy": True,
                "disabled": [k for k in ("rm_parent", "close_reopen", "reopen_same", "save_as", "list", "drop", "mk_dup", "move_data", "copy_extent", "pg_rm", "pg_del")]}

    def simplify_config(self, cfg):
        out = []
        if cfg.get("gc") != "none":
            out.append({**cfg, "gc": "none"})
        if cfg.get("version") != 2.1:
            out.append({**cfg, "version": 2.1})
        if cfg.get("h5repack") != "absent":
            out.append({**cfg, "h5repack": "absent"})
        return out

    # ------------------------------------------------------------------------------------------
    def gen_history(self, seed, cfg):
        """Generate the history online in a scratch world (no crash), return the recorded ops."""
        rng = random.Random(H(seed, "program"))
        sim = Sim(seed, cfg)
        ops = []
        with sim.running():
            world = World(sim, cfg, "C11", [])
            world.weights = lambda: dict(OP_KINDS)
            world.open_initial()
            seeded = []
            if cfg.get("concat_seed") and cfg.get("version", 2.1) >= 2.0:
                # the history starts with a drillhole group and a hole in it (the concatenated store has its own writes at close)
                from . import build

                r2 = random.Random(H(seed, "seeded"))
                seeded = [{"id": 0, "k": "mk_group", "sub": r2.getrandbits(64), "h": "A", "keep": False, "cls": "DrillholeGroup", "name": "dh group",
                           "t": {"by": None, "n": 0, "fb": 0, "want": "container"}},
                          {"id": 1, "k": "mk_object", "sub": r2.getrandbits(64), "h": "A", "keep": r2.random() < 0.5, "cls": "Drillhole",
                           "t": {"by": 0, "n": 0, "fb": 0, "want": "groupish"}, "args": build.gen_object_args(r2, "Drillhole")}]
            for i in range(max(cfg["n_ops"], len(seeded))):
                op = seeded[i] if i < len(seeded) else world.gen_op(rng, i)
                ops.append(op)
                world.apply(op)
                if world.suspect:
                    break
            world.slots.clear()
            for handle in world.h.values():
                handle.ws.close()
                handle.ws = None
        return ops

    def execute(self, seed, program=None):
        rng = random.Random(H(seed, "config"))
        if program is None:
            cfg = self.make_config(rng)
            ops = self.gen_history(seed, cfg)
            points = None
        else:
            cfg, ops = program["config"], program["ops"]
            points = program.get("points")
        stats = {"events": 0, "ops": 0, "faults": {}, "probes": {}, "oracle_evals": {}, "states": [], "clock_lo": None, "clock_hi": None, "cell": "lifecycle"}
        traces, nontrivial = set(), set()
        status, violation, digest_parts = "ok", None, []
        n = len(ops)
        plan = points if points is not None else ([(k, "abort") for k in range(n + 1)] + [(n, e) for e in EXITS[1:]])
        done = []
        for (k, exit_kind) in plan:
            res = self.one(seed, cfg, ops, k, exit_kind)
            done.append([k, exit_kind])
            for key in ("faults", "probes", "oracle_evals"):
                for name, cnt in res[key].items():
                    stats[key][name] = stats[key].get(name, 0) + cnt
            stats["events"] += res["events"]
            stats["ops"] += k
            digest_parts.append(res["digest"])
            traces.add(res["trace_hash"])
            if res["nontrivial"]:
                nontrivial.add(res["trace_hash"])
            if res["violation"] is not None:
                status = "violation" if res["violation"]["prop"] == self.prop else "foreign"
                violation = res["violation"]
                violation["discr"] = {**violation["discr"], "exit": exit_kind}
                done = [[k, exit_kind]]
                break
            if res["suspect"]:
                status = "suspect"
                stats["suspect"] = res["suspect"]
                break
        stats["trace_hash"] = rawgeoh5.sha(sorted(traces))
        stats["nontrivial"] = bool(nontrivial)
        stats["crash_points"] = len(plan)
        stats["sub_traces"] = sorted(traces)
        stats["sub_nontrivial"] = sorted(nontrivial)
        program_out = {"config": cfg, "ops": ops}
        if status == "violation" or points is not None:
            program_out["points"] = done if status == "violation" else points
        return {"status": status, "violation": violation, "suspect": stats.get("suspect"), "program": program_out, "stats": stats,
                "digest": rawgeoh5.sha(digest_parts)}

    # ------------------------------------------------------------------------------------------
    def one(self, seed, cfg, ops, k, exit_kind):
        from geoh5py import Workspace
        from geoh5py.shared.exceptions import Geoh5FileClosedError
        from geoh5py.shared.utils import fetch_active_workspace

        sim = Sim(H(seed, k, exit_kind), cfg)
        out = {"violation": None, "suspect": None}
        with sim.running():
            world = World(sim, cfg, "C11", [])
            base_objects = open_objects()
            try:
                world.open_initial()
                handle = world.h["A"]
                ws = handle.ws
                # --- the with-block and the way it ends
                try:
                    with ws:
                        for op in ops[:k]:
                            world.apply(op)
                            if world.suspect:
                                break
                        if exit_kind == "abort" and not world.suspect:
                            sim.fault("abort_with_block")
                            sim.probe("abort_at_0" if k == 0 else ("abort_at_end" if k == len(ops) else "abort_mid"))
                            raise SimAbort()
                        if exit_kind in ("close", "double_close"):
                            ws.close()
                            sim.probe("exit_" + exit_kind)
                            if exit_kind == "double_close":
                                ws.close()
                        elif exit_kind == "helper_r":
                            # a helper re-opens the workspace in another mode on the user's behalf: that closes it
                            # (an open 'r+' workspace satisfies a request for 'r': the helper hands it back as is)
                            with fetch_active_workspace(ws, mode="r") as ro:
                                ro.root.children  # pylint: disable=pointless-statement
                            sim.probe("exit_helper_r")
                        elif exit_kind == "helper_rplus_from_r":
                            ws.close()
                            ws.open(mode="r")
                            with fetch_active_workspace(ws, mode="r+"):
                                pass
                            sim.probe("exit_helper_reopen")
                        elif exit_kind == "helper_r_on_closed":
                            # the helper opens the closed workspace read-only for a moment and closes it again
                            ws.close()
                            with fetch_active_workspace(ws, mode="r") as ro:
                                if ro.geoh5.mode != "r":
                                    raise Violation("C11", "helper_mode", f"fetch_active_workspace(closed ws, 'r') opened it in mode {ro.geoh5.mode!r}", {})
                            sim.probe("exit_helper_on_closed")
                        elif exit_kind == "save_as":
                            # the workspace moves to a copy of its file: it is closed (flushed), copied and re-opened on the copy
                            world.saved_from = None if handle.bytesio else handle.path
                            handle.path = sim.path("saved_as.geoh5")
                            ws.save_as(handle.path)
                            handle.bytesio = False
                            sim.probe("exit_save_as")
                        else:
                            sim.probe("exit_normal")
                except SimAbort:
                    pass
                if exit_kind in ("helper_abort_on_closed", "helper_abort_from_r") and not world.suspect:
                    # the block of a helper that (re-)opened the workspace itself is aborted by an exception:
                    # the helper must still close what it opened
                    if exit_kind == "helper_abort_from_r":
                        ws.open(mode="r")
                    try:
                        with fetch_active_workspace(ws, mode="r+") as rw:
                            rw.root.children  # pylint: disable=pointless-statement
                            sim.fault("abort_helper_block")
                            raise SimAbort()
                    except SimAbort:
                        pass
                    sim.probe("exit_helper_abort")
                if world.suspect:
                    out["suspect"] = world.suspect
                else:
                    if handle.bytesio:
                        # a workspace living in memory: what its closed buffer holds is "the file"
                        from io import BytesIO

                        if isinstance(ws.h5file, BytesIO):
                            handle.path.write_bytes(ws.h5file.getbuffer())
                            sim.probe("in_memory_workspace")
                    self.after_close(world, sim, base_objects, Geoh5FileClosedError, Workspace)
            except Violation as vio:
                out["violation"] = {"prop": vio.prop, "tag": vio.tag, "detail": f"after o_1..o_{k} ({exit_kind}): {vio.detail}", "discr": vio.discr, "event": sim.events, "k": k}
                sim.record("violation", vio.prop, vio.tag, vio.discr)
            out.update(events=sim.events, faults=dict(sim.faults), probes=dict(sim.probes), oracle_evals=dict(sim.oracle_evals), digest=sim.digest(),
                       trace_hash=rawgeoh5.sha([world.trace, exit_kind]), nontrivial=world.n_mut >= 2)
            world.slots.clear()
            for hd in world.h.values():
                if hd.ws is not None:
                    try:
                        hd.ws.close()
                    except Exception:  # pylint: disable=broad-except
                        pass
                    hd.ws = None
        return out

    def after_close(self, world, sim, base_objects, closed_error, Workspace):
        handle = world.h["A"]
        ws = handle.ws
        model = handle.model
        # (i) no HDF5 handle stays open
        sim.oracle("handles_released")
        if ws._geoh5 and getattr(ws._geoh5, "id", None) and ws._geoh5.id.valid:  # pylint: disable=protected-access
            raise Violation("C11", "handle_open", "the h5py.File of the workspace is still open after the close", {"what": "file"})
        leaked = open_objects() - base_objects
        if leaked > 0:
            raise Violation("C11", "handle_open", f"{leaked} HDF5 object handle(s) still open after the close", {"what": "objects"})
        before_bytes = rawgeoh5.file_sha256(handle.path)
        # (ii) the file is valid and (iii) holds every completed operation
        raw = rawgeoh5.read(handle.path)
        sim.oracle("file_valid")
        errs = [e for e in rawgeoh5.validate(raw, concat=False)]
        if errs:
            raise Violation("C11", "file_invalid", f"{errs[0][0]}: {errs[0][1]}", {"rule": errs[0][0]})
        tree = {k: compare.normalise_raw(v) for k, v in rawgeoh5.decode_tree(raw).items()}
        diffs = compare.diff_trees(model.recs, tree, "MODEL", "RAW", fields=("kind", "type_uid", "parent", "name", "flags", "values", "metadata", "pgs", "children", "attrs", "arrays"))
        sim.oracle("completed_ops_in_file")
        if diffs:
            raise Violation("C11", "completed_op_missing", diffs[0], {"field": _field(diffs[0])})
        if getattr(world, "saved_from", None):
            # save_as: the file the workspace left behind holds the same completed operations as the copy it moved to
            left = {k: compare.normalise_raw(v) for k, v in rawgeoh5.decode_tree(rawgeoh5.read(world.saved_from)).items()}
            diffs = compare.diff_trees(model.recs, left, "MODEL", "RAW", fields=("kind", "type_uid", "parent", "name", "flags", "values", "metadata", "pgs", "children", "attrs", "arrays"))
            if diffs:
                raise Violation("C11", "completed_op_missing", "file left behind by save_as: " + diffs[0], {"field": _field(diffs[0]), "view": "LEFT"})
        try:
            fresh = Workspace(handle.path, mode="r")
        except Exception as err:  # pylint: disable=broad-except
            raise Violation("C11", "reopen_fails", f"a fresh Workspace cannot open the file: {type(err).__name__}: {str(err)[:100]}", {"exc": type(err).__name__}) from None
        try:
            reopen = snapshot.snapshot(fresh)
            diffs = compare.diff_trees(model.recs, reopen, "MODEL", "REOPEN")
            if diffs:
                raise Violation("C11", "completed_op_missing", diffs[0], {"field": _field(diffs[0]), "view": "REOPEN"})
            # (iv) previously obtained references: value-or-closed-error
            self.stale_refs(world, sim, fresh, closed_error)
        finally:
            fresh.close()
        if rawgeoh5.file_sha256(handle.path) != before_bytes:
            raise Violation("C11", "stale_write", "calls on references of the closed workspace changed the file", {})
        # (v) re-opening the same object restores full access to the same content -- the content of the FILE: in half of the
        # histories another workspace object edits a data type in the file while this one is closed
        edited = None
        if not handle.bytesio and random.Random(H(sim.seed, "elsewhere")).random() < 0.5:     # (a buffer in memory has no other party)
            import uuid as _uuid

            cands = sorted(u for u, r in model.recs.items() if r["kind"] == "data" and not r.get("concat"))
            if cands:
                other = Workspace(handle.path, mode="r+")
                try:
                    ent = other.get_entity(_uuid.UUID(cands[0].strip("{}")))[0]
                    if ent is not None:
                        ent.entity_type.description = "edited elsewhere"
                        edited = cands[0]
                        sim.probe("edited_elsewhere_while_closed")
                    del ent
                finally:
                    other.close()
        try:
            ws.open()
        except Exception as err:  # pylint: disable=broad-except
            raise Violation("C11", "reopen_fails", f"ws.open() after the close raised {type(err).__name__}: {str(err)[:100]}", {"exc": type(err).__name__, "same": True}) from None
        sim.probe("reopen_same_object")
        if ws.geoh5.mode != "r+":
            raise Violation("C11", "reopen_mode", f"re-opened in mode {ws.geoh5.mode!r} instead of the workspace's mode 'r+'", {"mode": ws.geoh5.mode})
        live = snapshot.snapshot(ws)
        diffs = compare.diff_trees(model.recs, live, "MODEL", "LIVE")
        if diffs:
            raise Violation("C11", "reopen_content", diffs[0], {"field": _field(diffs[0])})
        if edited is not None:
            import uuid as _uuid

            ent = ws.get_entity(_uuid.UUID(edited.strip("{}")))[0]
            got = getattr(getattr(ent, "entity_type", None), "description", None)
            del ent
            if got != "edited elsewhere":
                raise Violation("C11", "reopen_content", f"the re-opened workspace shows type description {got!r}; the file holds 'edited elsewhere' "
                                "(written by another workspace object while this one was closed)", {"field": "type.description"})
        world.drop_all()
        # the next operation succeeds (bounded liveness: one step)
        from geoh5py.groups import ContainerGroup

        try:
            grp = ContainerGroup.create(ws, name="after reopen")
            del grp
        except Exception as err:  # pylint: disable=broad-except
            raise Violation("C11", "no_access_after_reopen", f"creating a group after re-opening raised {type(err).__name__}: {str(err)[:100]}", {"exc": type(err).__name__}) from None
        ws.close()

    def stale_refs(self, world, sim, fresh, closed_error):
        import uuid as _uuid

        for (h, uid), ent in sorted(world.slots.items(), key=lambda kv: kv[0]):
            if uid not in world.h[h].model.recs:
                continue
            twin = fresh.get_entity(_uuid.UUID(uid.strip("{}")))[0]
            if twin is None:
                continue
            cls = type(ent)
            for name in sorted(n for n in dir(cls) if not n.startswith("_") and isinstance(getattr(cls, n, None), property) and n not in SKIP_GETTERS):
                sim.oracle("stale_getter")
                try:
                    want = snapshot.canon(getattr(twin, name))
                    want_exc = None
                except Exception as err:  # pylint: disable=broad-except
                    want, want_exc = None, type(err).__name__
                try:
                    got = snapshot.canon(getattr(ent, name))
                except closed_error:
                    sim.probe("stale_getter_closed_error")
                    continue
                except Exception as err:  # pylint: disable=broad-except
                    if want_exc == type(err).__name__:
                        continue
                    raise Violation("C11", "stale_getter_wrong_error", f"{cls.__name__}.{name} on a reference of the closed workspace raised "
                                    f"{type(err).__name__}: {str(err)[:80]} instead of the closed-file error", {"getter": name, "exc": type(err).__name__}) from None
                if want_exc is not None:
                    continue
                sim.probe("stale_getter_value")
                if not _same_loose(got, want):
                    raise Violation("C11", "stale_getter_wrong_value", f"{cls.__name__}.{name} after close returned {compare._short(got)}; the file holds "
                                    f"{compare._short(want)}", {"getter": name, "cls": cls.__name__ if name != "values" else "data"})
            # a mutating call on the stale reference must raise the closed-file error
            sim.oracle("stale_setter")
            try:
                ent.name = ent.name
            except closed_error:
                sim.probe("stale_setter_refused")
            except Exception as err:  # pylint: disable=broad-except
                raise Violation("C11", "stale_setter_wrong_error", f"assigning name on a reference of the closed workspace raised {type(err).__name__}",
                                {"exc": type(err).__name__}) from None
            else:
                raise Violation("C11", "stale_setter_accepted", f"{cls.__name__}.name assignment on a reference of the closed workspace did not raise", {"cls": cls.__name__})
            del twin


def _same_loose(a, b) -> bool:
    if isinstance(a, (list, tuple)) or isinstance(b, (list, tuple)):
        return compare.same(compare.flat(a) if a is not None else None, compare.flat(b) if b is not None else None)
    return compare.same(a, b)


def _field(diff: str) -> str:
    parts = diff.split(" ")
    return parts[1].rstrip(":") if len(parts) > 1 else "?"
