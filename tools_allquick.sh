#!/bin/sh
# run every quick command of MANIFEST.json once (as `vp check` does), print a one-line outcome per check
cd /verif
export VERIF_SEED=${VERIF_SEED:-1} VERIF_TIER=quick
mkdir -p /dev/shm/allquick
for id in $(jq -r '.checks[].property_id' MANIFEST.json); do
  cmd=$(jq -r --arg id "$id" '.checks[] | select(.property_id==$id) | .quick_cmd' MANIFEST.json)
  start=$(date +%s)
  sh -c "$cmd" > /dev/shm/allquick/$id.log 2>&1
  code=$?
  echo "$id exit=$code $(( $(date +%s) - start ))s $(grep -c '^VIOLATION' /dev/shm/allquick/$id.log) violations $(grep -c '^KNOWN' /dev/shm/allquick/$id.log) known $(grep -c '^NOTE unexp' /dev/shm/allquick/$id.log) notes"
done
