"""Replay a file in-process printing each op's resolved outcome and model/live names."""
import json, sys, os
sys.path[:0]=["/repo","/verif"]
from sim import scenarios, kernel
import sim.world as W
d=json.load(open(sys.argv[1]))
scn=scenarios.make(*d["scenario"])
orig=W.World.apply
def apply(self, op):
    out=orig(self, op)
    print("OP", op["id"], op["k"], op.get("cls",""), "->", out, "touch", self.last_target, self.last_pg_owner)
    return out
W.World.apply=apply
res=scn.execute(d["seed"], d["program"])
print(res["status"], res["violation"])
